"""C05 — Accept-Language basic filtering and lookup implement RFC 4647.

Tie to the source: correspondence of coq/Model/C05_AcceptLang.v (basic_filtering, lookup, lookup_nohdr)
with the real AcceptLanguageValidHeader / AcceptLanguageNoHeader / AcceptLanguageInvalidHeader methods on
generated headers, tag lists and default arguments; plus an independent Python transcription of the
statement (RFC 4647 3.3.1 matching, 3.4 truncation) run against the public API over exhaustive small
universes and random cases, including the request glue (`Request.accept_language`) and a direct
observation of the truncation sequence through spy tag objects.
"""
import itertools
import json
import warnings

from harness import fw
from harness.fw import Err, cstr, clist, cpair, copt, cN, cbool

IMPORTS = ["Webob.Lib.PyStr", "Webob.Model.C05_AcceptLang"]
SENTINEL = "\x00default-object"


# =============================================================================== reference (the statement)
def single(s):
    """RFC 4647 3.4: a single letter or digit subtag."""
    return len(s) == 1 and (s.isalpha() or s.isdigit())


def truncations(r):
    """RFC 4647 3.4 progressive truncation of the range r (already lower-cased): r itself, then
    repeatedly without its last subtag; a single-character subtag that would become last goes with it."""
    subs = r.split("-")
    out = []
    while subs:
        out.append("-".join(subs))
        subs = subs[:-1]
        if subs and single(subs[-1]):
            subs = subs[:-1]
    return out


def matches_331(rng, tag):
    """RFC 4647 3.3.1: case-insensitive equality, or range is a prefix of the tag followed by '-'."""
    rng, tag = rng.lower(), tag.lower()
    return tag == rng or tag[:len(rng) + 1] == rng + "-"


def ref_basic_filtering(parsed, tags):
    """parsed: [(range, q_thousandths)].  A range repeated in the header counts once, with the quality and
    position of its first occurrence (webob's documented reading; the RFCs are silent)."""
    eff = {}
    for pos, (r, q) in enumerate(parsed):
        eff.setdefault(r.lower(), (q, pos))
    rows = []
    for i, t in enumerate(tags):
        hits = [(q, pos) for r, (q, pos) in eff.items() if r != "*" and matches_331(r, t)]
        if any(q == 0 for q, _ in hits):
            continue
        if hits:
            q, pos = min(hits, key=lambda h: (-h[0], h[1]))
        elif "*" in eff and eff["*"][0] != 0:
            q, pos = eff["*"]
        else:
            continue
        rows.append((-q, pos, i, t))
    rows.sort(key=lambda x: x[:3])
    return [[t, -nq] for nq, _, _, t in rows]


def ref_lookup(parsed, tags, default_range, default_tag, default_is_none):
    """Returns a str, 0 for `default`, or Err."""
    if default_tag is None and default_is_none:
        return Err("TypeError")
    if default_range == "*":
        return Err("ValueError")
    zero = {r.lower() for r, q in parsed if r != "*" and q == 0}
    star0 = any(r == "*" and q == 0 for r, q in parsed)
    prio = [r for _, _, r in sorted((-q, pos, r.lower()) for pos, (r, q) in enumerate(parsed) if r != "*" and q != 0)]

    def first_hit(cands):
        for c in cands:
            for t in tags:
                if t.lower() == c and t.lower() not in zero:
                    return t
        return None

    t = first_hit([c for r in prio for c in truncations(r)])
    if t is not None:
        return t
    if not star0:
        if default_range is not None:
            t = first_hit(truncations(default_range.lower()))
            if t is not None:
                return t
        if default_tag is not None and default_tag.lower() not in zero:
            return default_tag
    return 0


def want_with_default_kind(want, dkind):
    """ref_* say 0 for "`default` is the answer"; a callable default whose call raises makes that the exception."""
    if want == 0 and not isinstance(want, str) and dkind in DKINDS_RAISING:
        return Err(DKINDS_RAISING[dkind])
    return want


def ref_lookup_nohdr(default_tag, default_is_none):
    if default_tag is None and default_is_none:
        return Err("TypeError")
    return default_tag if default_tag is not None else 0


# =============================================================================== implementation adaptors
def header_text(elems):
    return ", ".join(r if qs is None else "%s%s" % (r, qs) for r, qs in elems)


def q_thousandths(qs):
    """';q=0.5' -> 500, independent of webob's parser."""
    if qs is None:
        return 1000
    v = qs.split("=", 1)[1].strip()
    whole, _, frac = v.partition(".")
    return int(whole) * 1000 + int((frac + "000")[:3])


def parsed_of(elems):
    return [(r, q_thousandths(qs)) for r, qs in elems]


VIAS_VALID = ["create", "ctor", "subclass", "request", "environ", "request-set", "request-set-list", "request-set-header",
              "request-subclass", "add", "radd", "add-header", "add-list", "radd-list", "copy"]
VIAS_NOHDR = ["create", "ctor", "request", "environ", "request-set", "request-del", "request-subclass", "copy"]


def make_header(text, via="class", elems=None):
    """Every way of arriving at a header object for the header text `text` (None = no header).  `elems` (the generated
    (range, ';q=..') pairs) is needed by the routes that build the header from Python values or by addition."""
    from webob import acceptparse as ap
    from webob import Request
    if via in ("class", "create"):
        return ap.create_accept_language_header(text)
    if via == "ctor":
        if text is None:
            return ap.AcceptLanguageNoHeader()
        try:
            return ap.AcceptLanguageValidHeader(text)
        except ValueError:
            return ap.AcceptLanguageInvalidHeader(text)
    if via == "subclass":
        class MyHeader(ap.AcceptLanguageValidHeader):
            pass
        return MyHeader(text)
    if via == "copy":
        return ap.create_accept_language_header(text).copy()
    if via in ("add", "radd", "add-header", "add-list", "radd-list"):
        if elems is None or len(elems) < 2:
            return ap.create_accept_language_header(text) + ""
        k = 1 + (len(text) % (len(elems) - 1))
        left, right = header_text(elems[:k]), header_text(elems[k:])
        if via == "add":
            return ap.create_accept_language_header(left) + right
        if via == "add-header":                      # header object + header object
            return ap.create_accept_language_header(left) + ap.create_accept_language_header(right)
        if via == "add-list":                        # header object + list of (range, qvalue) pairs
            return ap.create_accept_language_header(left) + [(r, q_thousandths(qs) / 1000.0) for r, qs in elems[k:]]
        if via == "radd-list":
            return tuple((r, q_thousandths(qs) / 1000.0) for r, qs in elems[:k]) + ap.create_accept_language_header(right)
        return left + ap.create_accept_language_header(right)
    if via == "request":
        return (Request.blank("/") if text is None else Request.blank("/", headers={"Accept-Language": text})).accept_language
    if via == "environ":
        env = {"REQUEST_METHOD": "GET", "wsgi.url_scheme": "https", "SERVER_NAME": "h", "SERVER_PORT": "443"}
        if text is not None:
            env["HTTP_ACCEPT_LANGUAGE"] = text
        return Request(env).accept_language
    if via == "request-subclass":
        class MyRequest(Request):
            pass
        return (MyRequest.blank("/") if text is None else MyRequest.blank("/", headers={"Accept-Language": text})).accept_language
    req = Request.blank("/", headers={"Accept-Language": "xx;q=0.1"})
    if via == "request-set":
        req.accept_language = text                       # set after construction (None removes the header)
    elif via == "request-del":
        del req.accept_language
    elif via == "request-set-header":
        req.accept_language = ap.create_accept_language_header(text)
    elif via == "request-set-list":
        if elems is None:
            req.accept_language = text
        else:
            val = [(r, q_thousandths(qs) / 1000.0) for r, qs in elems]
            req.accept_language = val if len(text) % 2 else tuple(val)
    else:
        raise ValueError(via)
    return req.accept_language


def canon_q(q):
    t = round(q * 1000)
    if abs(q * 1000 - t) > 1e-6:
        return repr(q)
    return t


def impl_parsed(h):
    return [(r, canon_q(q)) for r, q in h.parsed]


class _Tag(str):
    """Offered tags are handed over as instances of a str subclass so that "returned in its original spelling" can be
    checked as identity (tags[index] itself), also among equal offers."""
    __slots__ = ()


class _CallableObject:
    def __call__(self):
        return SENTINEL


DKINDS = ["none", "value", "callable", "callable-object", "zero", "empty", "false"]
# callables whose call fails: "default (called if callable)" means the failure of the call is the outcome
DKINDS_RAISING = {"raises-TypeError": "TypeError", "raises-ValueError": "ValueError", "needs-argument": "TypeError"}


def _raises_type_error():
    return len(None)                     # TypeError from the BODY of the callable


def _raises_value_error():
    raise ValueError("inside the callable")


def _needs_argument(x):
    return x


_RAISING_OBJECTS = {"raises-TypeError": _raises_type_error, "raises-ValueError": _raises_value_error,
                    "needs-argument": _needs_argument}
_DEFAULT_OBJECTS = {"value": SENTINEL, "zero": 0, "empty": _Tag(""), "false": False}


def mk_default(kind):
    if kind == "none":
        return None
    if kind in _DEFAULT_OBJECTS:
        return _DEFAULT_OBJECTS[kind]
    if kind == "callable":
        return lambda: SENTINEL
    if kind == "callable-object":
        return _CallableObject()
    if kind in _RAISING_OBJECTS:
        return _RAISING_OBJECTS[kind]
    raise ValueError(kind)


BF_SHAPES = ["kw-list", "pos-list", "kw-tuple", "pos-tuple"]
LK_SHAPES = ["kw", "pos", "mixed", "absent", "kw-tuple"]


def call_bf(h, tags, shape="kw-list"):
    seq = tuple(tags) if shape.endswith("tuple") else list(tags)
    return h.basic_filtering(seq) if shape.startswith("pos") else h.basic_filtering(language_tags=seq)


def impl_bf_raw(h, tags, shape="kw-list"):
    try:
        return list(call_bf(h, tags, shape))
    except Exception as e:  # noqa
        return Err(type(e).__name__)


def impl_bf(h, tags, shape="kw-list"):
    out = impl_bf_raw(h, tags, shape)
    return out if isinstance(out, Err) else [[str(t), canon_q(q)] for t, q in out]


def call_lookup(h, tags, dr, dt, default, shape="kw"):
    if shape == "pos":
        return h.lookup(list(tags), dr, dt, default)
    if shape == "mixed":
        return h.lookup(list(tags), dr, default=default, default_tag=dt)
    if shape == "absent":        # optional arguments that are None are left out
        kw = {k: v for k, v in (("default_range", dr), ("default_tag", dt), ("default", default)) if v is not None}
        return h.lookup(list(tags), **kw)
    seq = tuple(tags) if shape == "kw-tuple" else list(tags)
    return h.lookup(language_tags=seq, default_range=dr, default_tag=dt, default=default)


def impl_lookup_raw(h, tags, dr, dt, dkind, shape="kw"):
    """(canonical answer, the object returned)"""
    d = mk_default(dkind)
    try:
        with warnings.catch_warnings():
            warnings.simplefilter("ignore")
            r = call_lookup(h, tags, dr, dt, d, shape)
    except Exception as e:  # noqa
        return Err(type(e).__name__), None
    if dkind in ("callable", "callable-object"):
        if r is SENTINEL:
            return 0, r
    elif dkind in DKINDS_RAISING:
        if r is d:
            return "returned-the-callable-itself", r
    elif r is d:
        return 0, r              # `default` itself (None for dkind none)
    if isinstance(r, str):
        return str(r), r
    return "unexpected:%r" % (r,), r


def impl_lookup(h, tags, dr, dt, dkind, nohdr=False, shape="kw"):
    return impl_lookup_raw(h, tags, dr, dt, dkind, shape)[0]


# =============================================================================== generators
FIRST = ["en", "de", "zh", "a", "b", "x", "i", "sr", "es", "sl"]
LATER = ["gb", "us", "a", "b", "x", "1", "9", "hant", "cn", "private", "u", "co", "latn", "en",
         "419", "001", "1994", "1996", "12", "valencia", "rozaj", "biske"]
# registered-looking ranges with multi-digit numeric subtags (UN M.49 regions, year variants): a numeric subtag of more
# than one digit is NOT a singleton, so es-419-valencia falls back to es-419 and sl-rozaj-1994-biske to sl-rozaj-1994
REAL_RANGES = ["es-419-valencia", "sl-rozaj-1994-biske", "de-CH-1996", "en-001", "es-419", "sl-rozaj-biske-1994",
               "zh-Hant-CN-x-private1-private2", "de-DE-u-co-phonebk", "ca-ES-valencia", "en-a-12-x-9"]
QS = [None, None, None, ";q=0", ";q=0.0", ";q=0.000", ";q=0.5", ";q=0.50", "; q=0.500", ";q=0.3", " ;q=0.8", ";q=1",
      ";q=1.0", ";Q=0.001", ";q=0.999", ";q=0.5", ";q=0.3"]


def rand_case(rng, s):
    m = rng.randrange(4)
    if m == 0:
        return s
    if m == 1:
        return s.upper()
    if m == 2:
        return s.title()
    return "".join(c.upper() if rng.random() < 0.5 else c.lower() for c in s)


def rand_range(rng, maxsub=5):
    n = rng.choice([1, 1, 2, 2, 2, 3, 3, 4, maxsub])
    return "-".join([rng.choice(FIRST)] + [rng.choice(LATER) for _ in range(n - 1)])


def derive(rng, r):
    """A tag / range related to r: itself, a truncation, an extension, a near miss, another case."""
    subs = r.split("-")
    m = rng.randrange(9)
    if m == 0:
        out = r
    elif m == 1 and len(subs) > 1:
        out = "-".join(subs[:rng.randrange(1, len(subs))])
    elif m == 2:
        out = r + "-" + rng.choice(LATER)
    elif m == 3:
        out = r + rng.choice(["x", "1", "-", ""])
    elif m == 4 and len(subs) > 1:
        out = "-".join(subs[:-1]) + subs[-1]
    elif m == 5:
        out = r + "-" + rng.choice(LATER) + "-" + rng.choice(LATER)
    elif m == 6 and len(subs) > 2:
        k = rng.randrange(1, len(subs))
        out = "-".join(subs[:k] + subs[k + 1:])
    else:
        out = r
    return rand_case(rng, out)


ODD_RANGES = ["", "-", "a-", "-a", "en--gb", "en-_-x", "en-\xe9-x", "en-\xb2-x", "\xc9n-gb", "en-gb-", "x", "x-y", "x-y-z",
              "en-x", "*", "*", "*-a", "en-*", "1-2", "a-b-c-d-e-f"]


def rand_case_inputs(rng, allow_empty_tag=True, pool=None, wide=False, raising=False):
    if pool is None:
        pool = [rand_range(rng) for _ in range(rng.randrange(1, 5))]
        if rng.random() < 0.3:
            pool[rng.randrange(len(pool))] = rng.choice(REAL_RANGES)
    elems = []
    for _ in range(rng.choice([1, 1, 2, 2, 3, 3, 4, 5, 6])):
        if rng.random() < 0.15:
            r = "*"
        elif rng.random() < 0.8:
            r = rand_case(rng, rng.choice(pool))
        else:
            r = derive(rng, rng.choice(pool)).rstrip("-") or "en"
            if not is_range(r):
                r = rng.choice(pool)
        elems.append((r, rng.choice(QS)))
    tags = []
    for _ in range(rng.choice([0, 1, 2, 2, 3, 3, 4, 5, 6])):
        x = rng.random()
        if x < 0.7:
            tags.append(derive(rng, rng.choice(pool)))
        elif x < 0.9:
            tags.append(rand_case(rng, rand_range(rng, 3)))
        elif x < 0.95 and allow_empty_tag:
            tags.append("")
        else:
            tags.append(rng.choice(["en_US", "\xe9n", "en-", "-en", "x"]))
    x = rng.random()
    if x < 0.4:
        dr = None
    elif x < 0.85:
        dr = derive(rng, rng.choice(pool + tags) or "en")
    else:
        dr = rng.choice(ODD_RANGES)
    x = rng.random()
    if x < 0.35:
        dt = None
    elif x < 0.8:
        dt = derive(rng, rng.choice(pool))
    else:
        dt = rng.choice(tags + ["fallback", ""])
    dkind = rng.choice(["none", "value", "value", "callable", "callable-object", "zero", "empty", "false"])
    if tags and rng.random() < 0.25:
        # an offer equal to the numeric-ending / shorter prefix of a header range, and an equal-text duplicate
        r = rng.choice(elems)[0]
        subs = r.split("-")
        if len(subs) > 1:
            tags[rng.randrange(len(tags))] = rand_case(rng, "-".join(subs[:rng.randrange(1, len(subs))]))
        tags.append(rng.choice(tags))
    if wide and rng.random() < 0.5:
        # code points >= 256 (outside the Gallina model's domain; the reference uses Python's own predicates)
        w = rng.choice(WIDE)
        tags.append(w)
        if rng.random() < 0.5:
            dr = rng.choice(WIDE)
        if rng.random() < 0.3:
            dt = rng.choice(WIDE)
    if raising and rng.random() < 0.12:
        dkind = rng.choice(sorted(DKINDS_RAISING))
    return elems, tags, dr, dt, dkind


def is_range(r):
    import re
    return re.fullmatch(r"\*|[A-Za-z]{1,8}(?:-[A-Za-z0-9]{1,8})*", r) is not None


INVALID_HEADERS = ["", "en;q=2", "en_US", ", ,", "\xe9", "en;q=0.1234", "en-toolongsubtag", "en;q=", "en gb", "*-a", "1a",
                   "en;q=1.001", "en,,de;", "-en"]


# =============================================================================== Coq literals
def cparsed(parsed):
    return clist(cpair(cstr(r), cN(q)) for r, q in parsed)


def cstrs(l):
    return clist(cstr(t) for t in l)


def cost(s):
    return copt(None if s is None else cstr(s))


def clookup_args(parsed, tags, dr, dt, dkind):
    return "(%s, %s, %s, %s, %s)" % (cparsed(parsed), cstrs(tags), cost(dr), cost(dt), cbool(dkind == "none"))


# =============================================================================== histories on one object
# The statement speaks of the return values of basic_filtering(tags) and lookup(...) for a header; an object that
# answers differently after some other call (because a method rewrote its state) breaks it on the second call.
# ops: ["bf", tags] ["lookup", tags, dr, dt, dkind] ["best_match", offers, default_match] ["quality", offer]
#      ["contains", offer] ["iter"] ["str"] ["repr"] ["copy", switch_to_copy] ["add", other] ["radd", other]
def canon_any(v):
    if isinstance(v, float):
        return "float:%r" % v
    if isinstance(v, (list, tuple)):
        return [canon_any(x) for x in v]
    if v is None or isinstance(v, (str, int, bool)):
        return v
    return "%s:%s" % (type(v).__name__, getattr(v, "header_value", None))


def snapshot(h):
    """Everything observable about the object's state."""
    with warnings.catch_warnings():
        warnings.simplefilter("ignore")
        return [type(h).__name__, h.header_value, canon_any(h.parsed), str(h), repr(h), bool(h),
                canon_any(getattr(h, "_parsed_nonzero", None))]


def apply_hop(h, op):
    """Returns (object to go on with, canonical answer)."""
    t = op[0]
    with warnings.catch_warnings():
        warnings.simplefilter("ignore")
        try:
            if t == "bf":
                return h, canon_any(h.basic_filtering(language_tags=list(op[1])))
            if t == "lookup":
                if op[1] is None:       # invalid/no-header signature allows omitting the tags
                    r = h.lookup(default_range=op[2], default_tag=op[3], default=mk_default(op[4]))
                else:
                    r = h.lookup(language_tags=list(op[1]), default_range=op[2], default_tag=op[3], default=mk_default(op[4]))
                return h, canon_any(r)
            if t == "best_match":
                offers = [tuple(o) if isinstance(o, list) else o for o in op[1]]
                return h, canon_any(h.best_match(offers, default_match=op[2]))
            if t == "quality":
                return h, canon_any(h.quality(op[1]))
            if t == "contains":
                return h, (op[1] in h)
            if t == "iter":
                return h, canon_any(list(h))
            if t == "str":
                return h, str(h)
            if t == "repr":
                return h, repr(h)
            if t == "copy":
                c = h.copy()
                return (c if op[1] else h), snapshot(c)
            if t == "add":
                return h, snapshot(h + op[1])
            if t == "radd":
                return h, snapshot(op[1] + h)
        except Exception as e:  # noqa
            return h, Err(type(e).__name__)
    raise ValueError(op)


def history_text(case):
    return header_text([tuple(e) for e in case["elems"]]) if case.get("elems") is not None else case["header"]


def oracle_history(case):
    """Every answer in a history of calls on ONE header object must equal the answer of the same call on a brand-new
    object built from the same header text, and the object's observable state (.parsed, header_value, str, repr, bool,
    class) must read the same after every call; for valid headers basic_filtering/lookup answers are also compared
    with the statement's reference."""
    text = history_text(case)
    via = case.get("via", "class")
    elems = [tuple(e) for e in case["elems"]] if case.get("elems") is not None else None
    h = make_header(text, via, elems)
    snap0 = snapshot(h)
    parsed = parsed_of(elems) if elems is not None else None
    done = []
    for i, op in enumerate(case["ops"]):
        h, got = apply_hop(h, op)
        _, want = apply_hop(make_header(text, via, elems), op)
        if got != want:
            return ("history:%s-answer-depends-on-earlier-calls" % op[0],
                    "header %r: call #%d %r on an object that already served %r returned %r, a fresh object returns %r"
                    % (text, i, op, case["ops"][:i], got, want))
        snap = snapshot(h)
        if snap != snap0:
            # go on to show what the change does to a later answer, if the history has one
            later = ""
            for j, op2 in enumerate(case["ops"][i + 1:], i + 1):
                h, got2 = apply_hop(h, op2)
                _, want2 = apply_hop(make_header(text, via, elems), op2)
                if got2 != want2:
                    later = "; afterwards call #%d %r returns %r where a fresh object returns %r" % (j, op2, got2, want2)
                    break
            return ("history:%s-changes-the-header-object" % op[0],
                    "header %r: after call #%d %r the object reads %r, before the history it read %r%s"
                    % (text, i, op, snap[2:4], snap0[2:4], later))
        if parsed is not None and snap0[0] in ("AcceptLanguageValidHeader", "MyHeader"):
            if op[0] == "bf" and not isinstance(got, Err):
                ref = [[t, "float:%r" % (q / 1000.0)] for t, q in ref_basic_filtering(parsed, op[1])]
                if got != ref:
                    return ("history:bf-answer-wrong", "header %r: call #%d %r returned %r, the statement gives %r"
                            % (text, i, op, got, ref))
        done.append(op[0])
    return None


HIST_OFFERS = ["en", "en-gb", "fr", "de", "a", "a-b", "zh-hant", "x"]


def rand_hop(rng, pool, nohdr=False):
    t = rng.choice(["bf", "bf", "bf", "lookup", "lookup", "lookup", "best_match", "quality", "contains", "iter", "str",
                    "repr", "copy", "add", "radd"])
    _, tags, dr, dt, dk = rand_case_inputs(rng, pool=pool)
    if t == "bf":
        return ["bf", tags]
    if t == "lookup":
        return ["lookup", (None if nohdr and rng.random() < 0.3 else tags), dr, dt, dk]
    if t == "best_match":
        offers = [([x, rng.choice([0.3, 0.5, 1])] if rng.random() < 0.3 else x) for x in (tags or ["en"])]
        return ["best_match", offers, rng.choice([None, "dflt"])]
    if t in ("quality", "contains"):
        return [t, rng.choice(tags + [derive(rng, rng.choice(pool))])]
    if t == "copy":
        return ["copy", rng.random() < 0.5]
    if t in ("add", "radd"):
        return [t, rng.choice(["fr;q=0.2", "", "x y", "de, en;q=0"])]
    return [t]


def rand_history(rng, maxops, model_ops_only=False):
    pool = [rand_range(rng, 3) for _ in range(rng.randrange(1, 4))]
    elems, _, _, _, _ = rand_case_inputs(rng, pool=pool)
    if rng.random() < 0.5:
        # make sure a range is repeated with a different quality somewhere
        r, _ = rng.choice(elems)
        elems.insert(rng.randrange(len(elems) + 1), (rand_case(rng, r), rng.choice(QS)))
    ops = []
    for _ in range(rng.randrange(2, maxops + 1)):
        op = rand_hop(rng, pool)
        while model_ops_only and op[0] not in ("bf", "lookup"):
            op = rand_hop(rng, pool)
        ops.append(op)
    return {"kind": "history", "elems": [list(e) for e in elems], "ops": ops}


def rand_history_nohdr(rng, maxops):
    pool = [rand_range(rng, 3) for _ in range(2)]
    return {"kind": "history", "elems": None, "header": rng.choice(INVALID_HEADERS + [None, None, None]),
            "ops": [rand_hop(rng, pool, nohdr=True) for _ in range(rng.randrange(2, maxops + 1))]}


def exhaustive_histories(depth):
    """Every header of <= 3 elements over {a, b, *} x {q absent, 0, 0.5, 0.9} with at least one repeat, every sequence
    of `depth` calls from a small universe."""
    elem_u = [(r, q) for r in ["a", "b", "*"] for q in [None, ";q=0", ";q=0.5", ";q=0.9"]]
    ops_u = [["bf", ["a", "b-x", "c"]], ["lookup", ["b", "A"], None, "dflt", "none"], ["lookup", ["c"], "b-x", None, "value"],
             ["best_match", ["a", "b"], None], ["quality", "a"], ["contains", "b"], ["iter"], ["copy", True]]
    for n in (2, 3):
        for elems in itertools.product(elem_u, repeat=n):
            if len({e[0] for e in elems}) == n:
                continue                       # histories matter most where a range is repeated
            for ops in itertools.product(ops_u, repeat=depth):
                if not any(o[0] in ("bf", "lookup") for o in ops):
                    continue
                yield {"kind": "history", "elems": [list(e) for e in elems], "ops": [list(o) for o in ops]}


def chop(op):
    if op[0] == "bf":
        return "(HFilter %s)" % cstrs(op[1])
    return "(HLookup %s %s %s %s)" % (cstrs(op[1]), cost(op[2]), cost(op[3]), cbool(op[4] == "none"))


def impl_history(case):
    """[[answer, parsed after the call], ...] for a bf/lookup history on one real object (model's observation)."""
    h = make_header(history_text(case))
    out = []
    for op in case["ops"]:
        if op[0] == "bf":
            a = impl_bf(h, op[1])
        else:
            a = impl_lookup(h, op[1], op[2], op[3], op[4])
        out.append([a, [[r, canon_q(q)] for r, q in h.parsed]])
    return out


# =============================================================================== oracle
# =============================================================================== outside the modelled domain
# The model (and the statement) take language_tags to be a list of str over code points < 256.  Outside of that the real
# code is still visited: what remains meaningful is checked (answers where the inputs still make sense, only the
# documented kind of refusal otherwise, the header object untouched, a following well-formed call answered correctly).
OUT_CONTAINERS = ["tuple", "set", "frozenset", "dict", "dict_keys", "iter", "generator", "str-subclass-list"]
OUT_ELEMENTS = ["none", "int", "bytes", "tuple"]
WIDE = ["\u0130", "i\u0307", "en-\u0130", "EN-\u0130-x", "\u03c3-x", "\u03a3-X", "en-\uff11-x", "en-\uff11", "en-\u0663-x", "en-\u4e2d-x",
        "en-\u4e2d", "\u01c5", "\u1e9e", "en-\u1e9e", "EN-\u00df", "\U0001d7d9-x", "en-\U0001d7d9-x"]


def _container(kind, tags):
    if kind == "tuple":
        return tuple(tags)
    if kind == "set":
        return set(tags)
    if kind == "frozenset":
        return frozenset(tags)
    if kind == "dict":
        return {t: i for i, t in enumerate(tags)}
    if kind == "dict_keys":
        return {t: i for i, t in enumerate(tags)}.keys()
    if kind == "iter":
        return iter(list(tags))
    if kind == "generator":
        return (t for t in list(tags))
    return [_Tag(t) for t in tags]


def _odd_element(kind):
    return {"none": None, "int": 5, "bytes": b"en", "tuple": ("en",)}[kind]


def oracle_outside(case):
    from webob.acceptparse import AcceptLanguageValidHeader
    elems = [tuple(e) for e in case["elems"]]
    text, parsed = header_text(elems), parsed_of(elems)
    h = make_header(text, "create")
    snap0 = snapshot(h)
    tags = list(case["tags"])
    sub = case["sub"]
    refusal = ("TypeError", "AttributeError", "KeyError")
    msg = None
    if sub == "container":
        cont = _container(case["container"], tags)
        order = list(cont) if case["container"] not in ("iter", "generator") else list(tags)
        cont = _container(case["container"], tags) if case["container"] in ("iter", "generator") else cont
        if case["op"] == "bf":
            try:
                got = [[str(t), canon_q(q)] for t, q in h.basic_filtering(cont)]
            except Exception as e:  # noqa
                got = Err(type(e).__name__)
            want = [[str(t), q] for t, q in ref_basic_filtering(parsed, order)]
        else:
            d = mk_default("value")
            try:
                r = h.lookup(cont, default_range=case["default_range"], default_tag=case["default_tag"], default=d)
                got = 0 if r is d else r
            except Exception as e:  # noqa
                got = Err(type(e).__name__)
            want = ref_lookup(parsed, order, case["default_range"], case["default_tag"], False)
        indexable = case["container"] in ("tuple", "str-subclass-list")
        if got != want and (indexable or not (isinstance(got, Err) and got.name in refusal)):
            msg = ("outside:non-list-tags-wrong-answer",
                   "%s on a %s of %r for header %r gives %r; expected %r%s"
                   % (case["op"], case["container"], order, text, got, want, "" if indexable else " or TypeError/KeyError"))
    elif sub == "element":
        bad = _odd_element(case["element"])
        tags2 = list(tags)
        tags2.insert(case["at"] % (len(tags2) + 1), bad)
        try:
            if case["op"] == "bf":
                # the odd element itself may come back (bytes offered to a header that is only '*'): not judged
                got = [[t, canon_q(q)] for t, q in h.basic_filtering(tags2) if t is not bad]
            else:
                d = mk_default("value")
                r = h.lookup(tags2, default_tag=case["default_tag"], default=d)
                got = 0 if r is d else r
        except Exception as e:  # noqa
            got = Err(type(e).__name__)
        if isinstance(got, Err):
            if got.name not in refusal:
                msg = ("outside:non-str-tag-unexpected-exception", "%s with offers %r raises %s" % (case["op"], tags2, got.name))
        else:
            # it got through (bytes never equal a str): the answer must be the one for the well-formed offers
            want = ([[str(t), q] for t, q in ref_basic_filtering(parsed, tags)] if case["op"] == "bf"
                    else ref_lookup(parsed, tags, None, case["default_tag"], False))
            if got != want:
                msg = ("outside:non-str-tag-changes-the-answer", "%s with offers %r for header %r gives %r, without the odd "
                       "element the statement gives %r" % (case["op"], tags2, text, got, want))
    elif sub == "default":
        dk = case["dkind"]
        d = list                                # a class is a callable: called, `[]` comes back
        hit = ref_lookup(parsed, tags, case["default_range"], case["default_tag"], False)
        try:
            r = h.lookup(tags, default_range=case["default_range"], default_tag=case["default_tag"], default=d)
            got = r
        except Exception as e:  # noqa
            got = Err(type(e).__name__)
        if hit != 0:
            ok = got == hit                      # `default` is not reached
        else:
            ok = got == []
        if not ok:
            msg = ("outside:odd-default-callable", "lookup(%r, %r, %r, default=<%s>) for header %r gives %r (statement's answer "
                   "before `default`: %r)" % (tags, case["default_range"], case["default_tag"], dk, text, got, hit))
    elif sub == "odd-default-args":
        dr, dt = case["default_range"], case["default_tag"]
        dr = dr.encode() if case.get("bytes_range") and dr is not None else dr
        dt = 7 if case.get("int_tag") else dt
        d = mk_default("value")
        hit = ref_lookup(parsed, tags, None, None, False)
        try:
            r = h.lookup(tags, default_range=dr, default_tag=dt, default=d)
            got = 0 if r is d else r
        except Exception as e:  # noqa
            got = Err(type(e).__name__)
        if hit != 0 and got != hit:
            msg = ("outside:odd-default-args-change-a-header-match", "lookup(%r, default_range=%r, default_tag=%r) for header %r "
                   "gives %r although the header itself selects %r" % (tags, dr, dt, text, got, hit))
        elif isinstance(got, Err) and got.name not in refusal:
            msg = ("outside:odd-default-args-unexpected-exception", "lookup(%r, default_range=%r, default_tag=%r) raises %s"
                   % (tags, dr, dt, got.name))
    if msg:
        return msg
    if snapshot(h) != snap0:
        return ("outside:refused-call-changes-the-header-object", "after %r the header object for %r reads %r" % (case, text, snapshot(h)[2:4]))
    got, want = impl_bf(h, tags), ref_basic_filtering(parsed, tags)
    if got != want:
        return ("outside:later-call-wrong", "after %r, basic_filtering(%r) for %r gives %r, expected %r" % (case, tags, text, got, want))
    return None


def rand_outside(rng):
    elems, tags, dr, dt, _ = rand_case_inputs(rng, allow_empty_tag=False)
    base = {"kind": "outside", "elems": [list(e) for e in elems], "tags": tags, "op": rng.choice(["bf", "lookup"]),
            "default_range": dr if dr != "*" else None, "default_tag": dt}
    sub = rng.choice(["container", "container", "element", "default", "odd-default-args"])
    base["sub"] = sub
    if sub == "container":
        base["container"] = rng.choice(OUT_CONTAINERS)
        if base["container"] in ("dict", "dict_keys", "set", "frozenset"):
            base["tags"] = list(dict.fromkeys(tags))
    elif sub == "element":
        base["element"] = rng.choice(OUT_ELEMENTS)
        base["at"] = rng.randrange(8)
    elif sub == "default":
        base["op"] = "lookup"
        base["dkind"] = "class"
    else:
        base["op"] = "lookup"
        base["bytes_range"] = rng.random() < 0.5
        base["int_tag"] = rng.random() < 0.5
    return base


def classify_bf(got, want):
    if isinstance(got, Err):
        return "basic_filtering:raises-" + got.name
    gt, wt = sorted(t for t, _ in got), sorted(t for t, _ in want)
    if gt != wt:
        extra = [t for t in gt if t not in wt]
        return "basic_filtering:returns-unmatched-or-excluded-tag" if extra else "basic_filtering:drops-matched-tag"
    if sorted(map(tuple, got)) != sorted(map(tuple, want)):
        return "basic_filtering:wrong-quality"
    return "basic_filtering:wrong-order"


def classify_lookup(case, got, want):
    if isinstance(got, Err) or isinstance(want, Err):
        return "lookup:argument-errors"
    if got == "" and "" in case["tags"] and want != "" and case.get("_agrees_without_empty_tags"):
        return "lookup:empty-tag-matched-after-range-truncated-away"
    if want == 0:
        return "lookup:returns-tag-instead-of-default"
    if got == 0:
        return "lookup:misses-match"
    return "lookup:wrong-tag"


def oracle_case(case):
    """Evaluate the statement on the implementation for one case dict.  Returns (key, message) or None."""
    kind = case["kind"]
    if kind == "valid":
        from webob.acceptparse import AcceptLanguageValidHeader
        elems = [tuple(e) for e in case["elems"]]
        text = header_text(elems)
        parsed = parsed_of(elems)
        via = case.get("via", "class")
        h = make_header(text, via, elems)
        if not isinstance(h, AcceptLanguageValidHeader):
            return ("glue:valid-header-not-recognised", "header %r (route %s) gives %s" % (text, via, type(h).__name__))
        if impl_parsed(h) != parsed:
            return ("glue:parsed-differs", "header %r (route %s) parsed as %r, expected %r" % (text, via, impl_parsed(h), parsed))
        tags = [_Tag(t) for t in case["tags"]]          # distinct objects, also for equal texts
        shape = case.get("shape")
        with warnings.catch_warnings():
            # neither method is deprecated: with warnings turned into errors they must behave the same
            warnings.simplefilter("error" if case.get("warn_error") else "ignore")
            if case["op"] == "bf":
                raw, wantraw = impl_bf_raw(h, tags, shape or "kw-list"), ref_basic_filtering(parsed, tags)
                got = raw if isinstance(raw, Err) else [[str(t), canon_q(q)] for t, q in raw]
                want = [[str(t), q] for t, q in wantraw]
                if got != want:
                    return (classify_bf(got, want),
                            "AcceptLanguageValidHeader(%r)[%s].basic_filtering(%r)[%s] = %r, RFC 4647 3.3.1 reading gives %r"
                            % (text, via, case["tags"], shape, got, want))
                if any(a[0] is not b[0] for a, b in zip(raw, wantraw)):
                    return ("basic_filtering:returns-equal-but-not-the-offered-object",
                            "AcceptLanguageValidHeader(%r).basic_filtering(%r) returns tags that are not the offered "
                            "objects language_tags[index] (positions %r)"
                            % (text, case["tags"], [k for k, (a, b) in enumerate(zip(raw, wantraw)) if a[0] is not b[0]]))
                return None
            dr, dt, dk = case["default_range"], case["default_tag"], case["default"]
            dt = None if dt is None else _Tag(dt)
            (got, raw), want = impl_lookup_raw(h, tags, dr, dt, dk, shape or "kw"), ref_lookup(parsed, tags, dr, dt, dk == "none")
            want = want_with_default_kind(want, dk)
        wantc = str(want) if isinstance(want, str) else want
        if got != wantc:
            if got == "returned-the-callable-itself":
                return ("lookup:callable-default-typeerror-swallowed",
                        "AcceptLanguageValidHeader(%r).lookup(%r, default_range=%r, default_tag=%r, default=<callable: %s>) "
                        "returns the callable object itself: it was called, the TypeError of the call was swallowed; "
                        "expected %r" % (text, case["tags"], dr, dt, dk, wantc))
            if got == "" and "" in tags:
                # the specific defect "an offered '' is returned once a range has been truncated away": without the
                # empty offers the implementation agrees with the statement
                t2 = [t for t in tags if t != ""]
                w2 = ref_lookup(parsed, t2, dr, dt, dk == "none")
                case = dict(case, _agrees_without_empty_tags=(impl_lookup(h, t2, dr, dt, dk) ==
                                                              (str(w2) if isinstance(w2, str) else w2)))
            return (classify_lookup(case, got, wantc),
                    "AcceptLanguageValidHeader(%r)[%s].lookup(%r, default_range=%r, default_tag=%r, default=<%s>)[%s] = %r, "
                    "RFC 4647 3.4 reading gives %r (0 = the default object)" % (text, via, case["tags"], dr, dt, dk, shape, got, wantc))
        if isinstance(want, str) and raw is not want:
            return ("lookup:returns-equal-but-not-the-offered-object",
                    "AcceptLanguageValidHeader(%r).lookup(%r, default_tag=%r) returns a str equal to %r that is not the "
                    "offered object itself (first equal offer / default_tag)" % (text, case["tags"], dt, wantc))
        return None
    if kind == "nohdr":
        text = case["header"]
        via = case.get("via", "class")
        h = make_header(text, via)
        cls = type(h).__name__
        want_cls = "AcceptLanguageNoHeader" if text is None else "AcceptLanguageInvalidHeader"
        if cls != want_cls:
            return ("glue:invalid-header-class", "header %r (route %s) gives %s, expected %s" % (text, via, cls, want_cls))
        tags = [_Tag(t) for t in case["tags"]]
        got = impl_bf(h, tags, case.get("shape") or "kw-list")
        if got != []:
            return ("nohdr:basic_filtering-not-empty", "%s(%r).basic_filtering(%r) = %r, expected []" % (cls, text, tags, got))
        dr, dt, dk = case["default_range"], case["default_tag"], case["default"]
        dt = None if dt is None else _Tag(dt)
        (got, raw), want = impl_lookup_raw(h, tags, dr, dt, dk, case.get("lshape") or "kw"), ref_lookup_nohdr(dt, dk == "none")
        want = want_with_default_kind(want, dk)
        wantc = str(want) if isinstance(want, str) else want
        if got == "returned-the-callable-itself" and got != wantc:
            return ("lookup:callable-default-typeerror-swallowed",
                    "%s(%r)[%s].lookup(%r, %r, %r, default=<callable: %s>) returns the callable object itself: it was called, "
                    "the TypeError of the call was swallowed; expected %r" % (cls, text, via, case["tags"], dr, dt, dk, wantc))
        if got != wantc or (isinstance(want, str) and raw is not want):
            return ("nohdr:lookup-cascade", "%s(%r)[%s].lookup(%r, %r, %r, <%s>) = %r, expected %r (the default_tag object itself)"
                    % (cls, text, via, case["tags"], dr, dt, dk, got, wantc))
        return None
    if kind == "outside":
        return oracle_outside(case)
    if kind == "history":
        return oracle_history(case)
    if kind == "trunc":
        got, want = observe_truncations(case["range"], case.get("via_default_range", False)), truncations(case["range"].lower())
        if got != want:
            if isinstance(got, list) and got == want + [""]:
                # same defect as an offered '' being returned: the loop goes on comparing after the range is used up
                return ("lookup:empty-tag-matched-after-range-truncated-away",
                        "lookup compares the offered tags against %r while truncating %r, i.e. also against the empty "
                        "string left when the range is truncated away; RFC 4647 3.4 gives %r" % (got, case["range"], want))
            return ("lookup:truncation-sequence",
                    "lookup compares the offered tags against %r while truncating %r; RFC 4647 3.4 gives %r"
                    % (got, case["range"], want))
        return None
    raise ValueError(kind)


class _SpyLow:
    def __init__(self, log):
        self.log = log

    def __eq__(self, other):
        self.log.append(other)
        return False

    def __hash__(self):
        return 0


class _SpyTag:
    def __init__(self, log):
        self.log = log

    def lower(self):
        return _SpyLow(self.log)


def observe_truncations(rng_text, via_default_range=False):
    """The sequence of strings lookup compares an offered tag with while processing one range, observed on
    the real code through a tag object whose lower-cased form records every == it takes part in."""
    from webob.acceptparse import AcceptLanguageValidHeader
    log = []
    try:
        if via_default_range:
            h = AcceptLanguageValidHeader("zz-zz")
            h.lookup([_SpyTag(log)], default_range=rng_text, default=0)
            log = log[2:]          # 'zz-zz', 'zz' from the header's own range
        else:
            h = AcceptLanguageValidHeader(rng_text)
            h.lookup([_SpyTag(log)], default=0)
    except Exception as e:  # noqa
        return Err(type(e).__name__)
    return log


def run_oracle(ctx, name, case, nontrivial=True):
    r = oracle_case(case)
    if r:
        ctx.fail(r[0], r[1], case, True, name)
    return r


def exhaustive_cases(depth_hdr, depth_tags, rich):
    ranges = ["a", "a-b", "a-b-c", "ab", "a-x-c", "a-12-c", "*"]
    qs = [None, ";q=0", ";q=0.5"]
    elem_u = [(r, q) for r in ranges for q in qs]
    tag_u = ["a", "A-b", "a-b-c", "a-x", "ab", "a-x-c", "a-12", ""]
    tag_lists = [[]]
    for d in range(1, depth_tags + 1):
        tag_lists += [list(t) for t in itertools.product(tag_u, repeat=d)]
    defaults = [(None, None, "value"), ("a-b-c", None, "value"), ("A-x-c", "a", "value"), (None, "A-B", "value"),
                ("a-b", "ab", "none"), ("a-b", None, "raises-TypeError")]
    if rich:
        defaults += [("ab-x-y", "a-b-c", "callable"), (None, None, "none"), ("*", "a", "value"), (None, "a", "none")]
    for d in range(1, depth_hdr + 1):
        for elems in itertools.product(elem_u, repeat=d):
            for tags in (tag_lists if d < 3 else [t for t in tag_lists if len(t) <= 1]):
                yield {"kind": "valid", "op": "bf", "elems": [list(e) for e in elems], "tags": tags}
                for dr, dt, dk in defaults:
                    yield {"kind": "valid", "op": "lookup", "elems": [list(e) for e in elems], "tags": tags,
                           "default_range": dr, "default_tag": dt, "default": dk}


def trunc_cases(maxlen):
    subs = ["en", "a", "1", "xy", "419"]
    for r in REAL_RANGES:
        yield {"kind": "trunc", "range": r}
        yield {"kind": "trunc", "range": r.upper(), "via_default_range": True}
    for n in range(1, maxlen + 1):
        for first in ["en", "a"]:
            for rest in itertools.product(subs, repeat=n - 1):
                yield {"kind": "trunc", "range": "-".join((first,) + rest)}
    for r in ODD_RANGES:
        if r != "*":
            yield {"kind": "trunc", "range": r, "via_default_range": True}
    for n in range(1, maxlen):
        for parts in itertools.product(["en", "a", "", "_", "\xe9", "\xb2", "E"], repeat=n):
            yield {"kind": "trunc", "range": "-".join(parts), "via_default_range": True}


# =============================================================================== the check
# what coq/Model/C05_AcceptLang.v mirrors by hand (each Gallina function's comment names the Python it follows)
MODELLED = [
    "webob.acceptparse:AcceptLanguageValidHeader.basic_filtering",          # bf_scan .. basic_filtering
    "webob.acceptparse:AcceptLanguageValidHeader.lookup",                   # lk_tables_of, best_match/bm_loop, lookup
    "webob.acceptparse:_AcceptLanguageInvalidOrNoHeader.basic_filtering",   # basic_filtering_nohdr
    "webob.acceptparse:_AcceptLanguageInvalidOrNoHeader.lookup",            # lookup_nohdr
    "webob.acceptparse:AcceptLanguageValidHeader.__init__",                 # hstep: the state is _parsed, set once here
    "webob.acceptparse:AcceptLanguageValidHeader.parsed",                   # the model's input / parsed_val
]
REGENERATED = []
# exercised on the real implementation by the oracle only (glue and the other methods inside call histories)
ORACLE_ONLY = [
    "webob.acceptparse:create_accept_language_header",
    "webob.acceptparse:accept_language_property",
    "webob.request:BaseRequest.accept_language",
    "webob.acceptparse:AcceptLanguage.parse",
    "webob.acceptparse:AcceptLanguage._python_value_to_header_str",
    "webob.acceptparse:_item_qvalue_pair_to_header_element",
    "webob.acceptparse:AcceptLanguage.lang_range_n_weight_compiled_re",
    "webob.acceptparse:AcceptLanguage.accept_language_compiled_re",
    "webob.acceptparse:AcceptLanguageValidHeader.header_value",
    "webob.acceptparse:AcceptLanguageValidHeader.copy",
    "webob.acceptparse:AcceptLanguageValidHeader.__add__",
    "webob.acceptparse:AcceptLanguageValidHeader.__radd__",
    "webob.acceptparse:AcceptLanguageValidHeader._add_instance_and_non_accept_language_type",
    "webob.acceptparse:AcceptLanguageValidHeader.__bool__",
    "webob.acceptparse:AcceptLanguageValidHeader.__contains__",
    "webob.acceptparse:AcceptLanguageValidHeader.__iter__",
    "webob.acceptparse:AcceptLanguageValidHeader.__str__",
    "webob.acceptparse:AcceptLanguageValidHeader.__repr__",
    "webob.acceptparse:AcceptLanguageValidHeader._old_match",
    "webob.acceptparse:AcceptLanguageValidHeader.best_match",
    "webob.acceptparse:AcceptLanguageValidHeader.quality",
    "webob.acceptparse:_AcceptLanguageInvalidOrNoHeader.__bool__",
    "webob.acceptparse:_AcceptLanguageInvalidOrNoHeader.__contains__",
    "webob.acceptparse:_AcceptLanguageInvalidOrNoHeader.__iter__",
    "webob.acceptparse:_AcceptLanguageInvalidOrNoHeader.best_match",
    "webob.acceptparse:_AcceptLanguageInvalidOrNoHeader.quality",
    "webob.acceptparse:AcceptLanguageNoHeader",
    "webob.acceptparse:AcceptLanguageInvalidHeader",
]


def run(ctx):
    import time as _time
    _t = [_time.time()]

    def lap(name):
        now = _time.time()
        ctx.note("section %s: %.1fs" % (name, now - _t[0]))
        _t[0] = now
    ctx.modelled(MODELLED)
    ctx.extra["regenerated_from_source"] = REGENERATED
    ctx.extra["oracle_only"] = ORACLE_ONLY
    ctx.build(["Props/C05.vo"])
    warnings.simplefilter("ignore")

    lap("build")
    # ---------------------------------------------------------------- correspondence
    rng = ctx.sub_rng("corr")
    n = ctx.scale(1000, 8000)
    bf_cases, lk_cases = [], []
    for i in range(n):
        elems, tags, dr, dt, dk = rand_case_inputs(rng)
        text = header_text(elems)
        h = make_header(text)
        if type(h).__name__ != "AcceptLanguageValidHeader":
            ctx.fail("glue:valid-header-not-recognised", "header %r gives %s" % (text, type(h).__name__),
                     {"kind": "valid", "op": "bf", "elems": [list(e) for e in elems], "tags": tags}, True, "corr")
            continue
        parsed = impl_parsed(h)
        if any(not isinstance(q, int) for _, q in parsed):
            ctx.broken.append("qvalue of %r is not a multiple of 0.001: %r" % (text, parsed))
            continue
        base = {"kind": "valid", "elems": [list(e) for e in elems], "tags": tags}
        bf_cases.append((cpair(cparsed(parsed), cstrs(tags)), impl_bf(h, tags), dict(base, op="bf")))
        lk_cases.append((clookup_args(parsed, tags, dr, dt, dk), impl_lookup(h, tags, dr, dt, dk),
                         dict(base, op="lookup", default_range=dr, default_tag=dt, default=dk)))
    for name, fn, cases, ty in (("basic_filtering", "(fun c => bf_val (fst c) (snd c))", bf_cases, "(parsed * list str)"),
                                ("lookup", "lookup_val", lk_cases, "lookup_args")):
        bad = ctx.corr(name, IMPORTS, fn, cases, in_type=ty, shard=130)
        for i in bad[:8]:
            case = cases[i][2]
            r = oracle_case(case)
            if r:
                ctx.fail(r[0], r[1], case, True, "corr")
            else:
                ctx.broken.append("correspondence %s: model and implementation disagree on %s (impl gives %r)"
                                  % (name, json.dumps(case), cases[i][1]))
    nh_cases = []
    for i in range(ctx.scale(60, 300)):
        text = rng.choice(INVALID_HEADERS + [None, None])
        _, tags, dr, dt, dk = rand_case_inputs(rng)
        h = make_header(text)
        nh_cases.append((cpair(cost(dt), cbool(dk == "none")), impl_lookup(h, tags, dr, dt, dk),
                         {"kind": "nohdr", "header": text, "tags": tags, "default_range": dr, "default_tag": dt, "default": dk}))
    bad = ctx.corr("lookup-nohdr", IMPORTS, "lookup_nohdr_val", nh_cases, in_type="(option str * bool)")
    for i in bad[:8]:
        case = nh_cases[i][2]
        r = oracle_case(case)
        if r:
            ctx.fail(r[0], r[1], case, True, "corr")
        else:
            ctx.broken.append("correspondence lookup-nohdr: model and implementation disagree on %s" % json.dumps(case))

    # the sequence of range texts the real loop compares offers with (observed through spy tags) against the
    # specification function `truncations` itself (Spec/C05_Rfc4647.v), which C05_best_match_truncations relates to the model
    tr_cases = []
    seen = set()
    for case in itertools.chain(trunc_cases(ctx.scale(4, 5)),
                                ({"kind": "trunc", "range": rand_case(rng, rand_range(rng, 6)), "via_default_range": bool(i % 2)}
                                 for i in range(ctx.scale(150, 1500)))):
        key = (case["range"], case.get("via_default_range", False))
        if key in seen:
            continue
        seen.add(key)
        tr_cases.append((cstr(case["range"]), observe_truncations(case["range"], case.get("via_default_range", False)), case))
    bad = ctx.corr("truncations", IMPORTS + ["Webob.Spec.C05_Rfc4647"],
                   "(fun r => VList (map VStr (truncations (lower r))))", tr_cases, in_type="str")
    for i in bad[:8]:
        case = tr_cases[i][2]
        r = oracle_case(case)
        if r:
            ctx.fail(r[0], r[1], case, True, "corr")
        else:
            ctx.broken.append("correspondence truncations: specification and implementation disagree on %s" % json.dumps(case))

    # histories of basic_filtering / lookup calls on ONE real object against the model's run_history: the answers and
    # `.parsed` as it reads after every call (the model hands the parsed list on unchanged, C05_history_pure)
    h_cases = []
    for i in range(ctx.scale(400, 3000)):
        case = rand_history(rng, 5, model_ops_only=True)
        obs = impl_history(case)
        parsed0 = parsed_of([tuple(e) for e in case["elems"]])
        h_cases.append((cpair(cparsed(parsed0), clist(chop(o) for o in case["ops"])), obs, case))
    bad = ctx.corr("history", IMPORTS, "history_val", h_cases, in_type="(parsed * list hop)", shard=60)
    for i in bad[:8]:
        case = h_cases[i][2]
        r = oracle_case(case)
        if r:
            ctx.fail(r[0], r[1], case, True, "corr")
        else:
            ctx.broken.append("correspondence history: model and implementation disagree on %s (impl gives %r)"
                              % (json.dumps(case), h_cases[i][1]))

    lap("correspondence")
    # ---------------------------------------------------------------- oracle: histories on one object
    cnt = 0
    for case in exhaustive_histories(2):
        cnt += 1
        run_oracle(ctx, "history-exhaustive", case)
    if ctx.thorough:
        r4 = ctx.sub_rng("hist-ex3")
        for case in exhaustive_histories(3):
            if r4.random() < 0.1:
                cnt += 1
                run_oracle(ctx, "history-exhaustive", case)
    ctx.oracle_count("history-exhaustive", cnt, cnt)
    r3 = ctx.sub_rng("history")
    m3 = ctx.scale(6000, 80000)
    for i in range(m3):
        case = rand_history(r3, 6) if i % 5 else rand_history_nohdr(r3, 6)
        if case.get("elems") is not None:
            case["via"] = r3.choice(VIAS_VALID)
        else:
            case["via"] = r3.choice([v for v in VIAS_NOHDR if v != "request-del" or case["header"] is None])
        run_oracle(ctx, "history", case)
    ctx.oracle_count("history", m3, m3)

    lap("oracle-histories")
    # ---------------------------------------------------------------- oracle: exhaustive small universes
    cnt = nt = 0
    for case in exhaustive_cases(ctx.scale(2, 3), ctx.scale(2, 2), ctx.thorough):
        cnt += 1
        run_oracle(ctx, "exhaustive", case)
    ctx.oracle_count("exhaustive", cnt, cnt)
    cnt = 0
    for case in trunc_cases(ctx.scale(5, 7)):
        cnt += 1
        run_oracle(ctx, "truncation", case)
    ctx.oracle_count("truncation", cnt, cnt)

    lap("oracle-exhaustive")
    # ---------------------------------------------------------------- oracle: random, both entry points
    r2 = ctx.sub_rng("oracle")
    m = ctx.scale(25000, 500000)
    nontriv = 0
    for i in range(m):
        elems, tags, dr, dt, dk = rand_case_inputs(r2, wide=(i % 4 == 0), raising=True)
        via = r2.choice(VIAS_VALID) if i % 2 else "create"
        base = {"kind": "valid", "elems": [list(e) for e in elems], "tags": tags, "via": via, "warn_error": i % 8 == 3}
        run_oracle(ctx, "random", dict(base, op="bf", shape=r2.choice(BF_SHAPES)))
        run_oracle(ctx, "random", dict(base, op="lookup", default_range=dr, default_tag=dt, default=dk,
                                       shape=r2.choice(LK_SHAPES)))
        if tags:
            nontriv += 2
    ctx.oracle_count("random", 2 * m, nontriv)
    m2 = ctx.scale(1500, 20000)
    for i in range(m2):
        text = r2.choice(INVALID_HEADERS + [None, None, None])
        _, tags, dr, dt, dk = rand_case_inputs(r2, wide=(i % 4 == 0), raising=True)
        run_oracle(ctx, "nohdr", {"kind": "nohdr", "header": text, "tags": tags, "default_range": dr, "default_tag": dt,
                                  "default": dk, "shape": r2.choice(BF_SHAPES), "lshape": r2.choice(LK_SHAPES),
                                  "via": r2.choice([v for v in VIAS_NOHDR if v != "request-del" or text is None])})
    ctx.oracle_count("nohdr", m2, m2)
    # outside the modelled domain (non-list containers, non-str offers, odd default arguments / callables)
    m4 = ctx.scale(6000, 60000)
    r5 = ctx.sub_rng("outside")
    for i in range(m4):
        run_oracle(ctx, "outside-domain", rand_outside(r5))
    ctx.oracle_count("outside-domain", m4, m4)

    lap("oracle-random")
    ctx.extra["rule"] = (
        "correspondence: random valid headers (1-6 elements drawn from a per-case pool of 1-5-subtag ranges incl. single-"
        "letter/digit subtags, repeated ranges, '*', q in {absent,0,0.0,0.001,0.3,0.5,0.8,0.999,1}, mixed case), 0-6 tags "
        "derived from the ranges (equal, truncated, extended, near-miss, other case, ''), default_range/default_tag derived "
        "likewise or odd strings, default None/value/callable; compared on basic_filtering and lookup return values; "
        "oracle: every header of <=%d elements over 6 ranges x 3 qualities x every tag list of <=2 over 7 tags x %d default "
        "combinations, the truncation sequence of every range of <=%d subtags over {en,a,1,xy} observed through spy tags, "
        "and random cases through both AcceptLanguageValidHeader and Request.accept_language; non-trivial = non-empty "
        "tag list; histories: 2-6 calls (basic_filtering, lookup, best_match, quality, in, iter, str, repr, copy, +) on ONE "
        "header object (valid headers with a repeated range in half the cases, invalid and missing headers), every "
        "answer compared with the same call on a brand-new object and the object's state (.parsed, header_value, str, "
        "repr, bool, class, _parsed_nonzero) compared with its initial state after every call; exhaustive: all headers "
        "of 2-3 elements over {a,b,*} x 4 qualities containing a repeat x all call pairs from 8 calls"
        "; construction routes varied in the oracle: create_accept_language_header, the constructors, a user subclass, "
        "Request headers / environ / Request subclass, request.accept_language set after construction (str, list/tuple of "
        "pairs, header object, None, del), copy(), header + str / header / list and reflected; call shapes: positional / "
        "keyword / mixed / optional arguments left out, list vs tuple; default in {None, value, function, callable object, "
        "0, '', False}; offers are str-subclass instances so the returned object's identity is checked; 1 case in 8 with "
        "warnings as errors; 1 in 4 with code points >= 256; outside-domain stream: set/frozenset/dict/keys/iterator/"
        "generator containers, None/int/bytes/tuple offers, bytes default_range, int default_tag, raising callables"
        % (ctx.scale(2, 3), ctx.scale(5, 9), ctx.scale(5, 7)))
    ctx.assume += [
        "language_tags is a list of str (generators/sets, which webob indexes with [index], are outside the statement)",
        "ranges, tags and default arguments use code points < 256 (str.lower/isalpha/isdigit are modelled there)",
        "a range repeated in the header counts once in basic_filtering, with the quality and position of its first "
        "occurrence (documented webob reading, pinned by its test-suite; RFC 4647/7231 do not define repeats)",
        "`default` is modelled as a value (LDefault = 'default, called if callable'); that a callable default is really "
        "called, and that a failure of the call is the outcome (not the callable object), is checked by the oracle only",
        "header parsing (text -> .parsed) is property C03's subject; here the model starts from .parsed and the oracle "
        "re-derives the expected .parsed from the generated elements independently",
    ]
    ctx.trusted += [
        "float qvalues with <= 3 decimals compare and sort like their thousandths (N) in the model",
        "Spec/C05_Rfc4647.v (matching, truncations, first-occurrence table) is trusted to say what RFC 4647 3.3.1/3.4 "
        "and the statement say",
    ]


def replay(ctx, path):
    data = json.load(open(path))
    case = data["case"]
    if not isinstance(case, dict) or "kind" not in case:
        print("replay: nothing executable in this file (broken obligation): %s" % data.get("what"))
        return 1
    warnings.simplefilter("ignore")
    r = oracle_case(case)
    if r:
        print("VIOLATION property=C05 replay=%s" % path)
        print("  (%s) %s" % r)
        return 1
    print("replay passes on the current tree")
    return 0
