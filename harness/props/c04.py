"""C04 — Accept / Accept-Charset / Accept-Encoding negotiation follows RFC 7231 precedence.

Tie to the source:
  * correspondence of coq/Model/C04_negotiation.v (c04_parse_offer, c04_accept, c04_accept_html,
    c04_accept_nohdr, c04_charset, c04_encoding) with the real webob objects: the model is fed the real
    object's `.parsed` ranges and the same offers, and must return what `acceptable_offers` returned;
  * oracle: an independent reference negotiator (written from the property text, working from the
    *structure* a header was rendered from, with its own RFC 7231 media-type parser) against
    `create_accept*_header(header).acceptable_offers(offers)`, `.accept_html()`, `.accepts_html`, the
    invalid/missing-header objects, `request.accept*`, and the consumer in exc.py.
"""
import itertools
import json
import string
import zlib

from harness import fw
from harness.fw import Err, catch, cstr, clist, cpair

IMPORTS = ["Webob.Lib.PyStr", "Webob.Lib.C04_Sort", "Webob.Model.C04_negotiation"]
HTMLS = ["text/html", "application/xhtml+xml", "application/xml", "text/xml"]

# ----------------------------------------------------------------------------------------------
# Reference (from the property text and RFC 7230/7231 grammar; shares no code with webob)
# ----------------------------------------------------------------------------------------------
TCHAR = set("!#$%&'*+-.^_`|~" + string.digits + string.ascii_letters)


def ascii_lower(s):
    return "".join(chr(ord(c) + 32) if "A" <= c <= "Z" else c for c in s)


def ref_parse_media_type(s):
    """RFC 7231 3.1.1.1 media-type = type "/" subtype *( OWS ";" OWS parameter ), parameter not named q
    (the Accept grammar reserves it), concrete (no wildcard).  -> (type, subtype, [(name, value)]) lower-cased
    names, unquoted values; None when `s` is not such a media type."""
    n = len(s)

    def token(i):
        j = i
        while j < n and s[j] in TCHAR:
            j += 1
        return j

    j = token(0)
    if j == 0 or j >= n or s[j] != "/":
        return None
    t = s[:j]
    k = token(j + 1)
    if k == j + 1:
        return None
    st = s[j + 1:k]
    i = k
    params = []
    while i < n:
        while i < n and s[i] in " \t":
            i += 1
        if i >= n or s[i] != ";":
            return None
        i += 1
        while i < n and s[i] in " \t":
            i += 1
        j = token(i)
        if j == i or j >= n or s[j] != "=":
            return None
        name = s[i:j]
        if name in ("q", "Q"):
            return None
        i = j + 1
        if i < n and s[i] == '"':
            i += 1
            val = []
            while True:
                if i >= n:
                    return None
                c = s[i]
                o = ord(c)
                if c == '"':
                    i += 1
                    break
                if c == "\\":
                    if i + 1 >= n:
                        return None
                    o2 = ord(s[i + 1])
                    if not (o2 in (9, 32) or 0x21 <= o2 <= 0x7e or 0x80 <= o2 <= 0xff):
                        return None
                    val.append(s[i + 1])
                    i += 2
                elif o in (9, 32, 0x21) or 0x23 <= o <= 0x5b or 0x5d <= o <= 0x7e or 0x80 <= o <= 0xff:
                    val.append(c)
                    i += 1
                else:
                    return None
            val = "".join(val)
        else:
            j = token(i)
            if j == i:
                return None
            val = s[i:j]
            i = j
        params.append((ascii_lower(name), val))
    if t == "*" or st == "*":
        return None
    return (ascii_lower(t), ascii_lower(st), params)


def ref_level(rng, po):
    """Specificity of range `rng` = (type, subtype, params, q) for parsed offer po; 0 = no match."""
    rt, rs, rp, _ = rng
    t, st, ps = po
    if rt == t and rs == st:
        # identical type/subtype: the range's parameters must be absent or identical (for a concrete offer nothing
        # below can apply anyway; for a hand-built wildcard AcceptOffer this is webob's pass-through behaviour)
        return 4 if rp == ps else (3 if not rp else 0)
    if rs == "*" and rt == t:
        return 2
    if rt == "*" and rs == "*":
        return 1
    return 0


def ref_governing(ranges, po):
    best, bl = None, 0
    for r in ranges:
        lv = ref_level(r, po)
        if lv > bl:
            best, bl = r, lv
    return best


def is_token_ref(t):
    return isinstance(t, str) and t != "" and all(c in TCHAR for c in t)


def offer_parse_ref(o):
    if isinstance(o, tuple):          # AcceptOffer stand-in ("obj", type, subtype, params): same rules as the text form
        t, st, ps = o[1], o[2], [tuple(p) for p in o[3]]
        if not (is_token_ref(t) and is_token_ref(st) and all(is_token_ref(n) and n not in ("q", "Q") for n, _ in ps)):
            return None
        if t == "*" or st == "*":
            return None
        return (ascii_lower(t), ascii_lower(st), [(ascii_lower(n), v) for n, v in ps])
    return ref_parse_media_type(o)


def normalised_obj(o):
    return isinstance(o, tuple) and offer_parse_ref(o) == (o[1], o[2], [tuple(p) for p in o[3]])


def ref_accept(ranges, offers):
    """ranges: [(type_lower, subtype_lower, [(name_lower, value)], q_thousandths)];  offers: str | ('obj', t, st, params).
    -> [(offer, q)] per the property statement."""
    seen = []
    out = []
    for idx, o in enumerate(offers):
        if o in seen:
            continue
        po = offer_parse_ref(o)
        if po is None:
            continue
        seen.append(o)
        g = ref_governing(ranges, po)
        if g is not None and g[3] != 0:
            out.append((o, g[3], idx))
    out.sort(key=lambda e: (-e[1], e[2]))
    return [[o, q] for o, q, _ in out]


def ref_simple(entries, offers, encoding):
    """entries: [(name, q_thousandths)] (Accept-Charset / Accept-Encoding).  Explicit case-insensitive entry
    (first occurrence) governs, '*' (first occurrence) governs what is not mentioned, identity default."""
    out = []
    for idx, o in enumerate(offers):
        lo = ascii_lower(o)
        q = None
        for name, qq in entries:
            if name != "*" and ascii_lower(name) == lo:
                q = qq
                break
        else:
            for name, qq in entries:
                if name == "*":
                    q = qq
                    break
            else:
                if encoding and lo == "identity":
                    q = 1000
        if q:
            out.append((o, q, idx))
    out.sort(key=lambda e: (-e[1], e[2]))
    return [[o, q] for o, q, _ in out]


# ----------------------------------------------------------------------------------------------
# Generators: structure -> header text (decorated) ; offers
# ----------------------------------------------------------------------------------------------
QS = [(None, 1000), ("1", 1000), ("1.0", 1000), ("1.000", 1000), ("0", 0), ("0.0", 0), ("0.000", 0), ("0.", 0),
      ("1.", 1000), ("0.5", 500), ("0.50", 500), ("0.500", 500), ("0.3", 300), ("0.7", 700), ("0.001", 1),
      ("0.999", 999), ("0.05", 50), ("0.9", 900), ("0.25", 250)]
TYPES = ["text", "TEXT", "Text", "application", "image", "a", "x-t", "*"]
SUBTYPES = ["html", "HTML", "Html", "plain", "xml", "xhtml+xml", "json", "b", "x.y", "*"]
PNAMES = ["level", "LEVEL", "Level", "charset", "a", "b", "A", "qq", "q1"]
PVALS = [("1", "1"), ("2", "2"), ("utf-8", "utf-8"), ("UTF-8", "UTF-8"), ('"1"', "1"), ('"a b"', "a b"), ('""', ""),
         ('"x\\"y"', 'x"y'), ('"\\\\"', "\\"), ('"\\a\\\\b"', "a\\b"), ('"\\\\\\\\"', "\\\\"), ('"a;b=c"', "a;b=c"),
         ('"\xe9"', "\xe9"), ('"\\\xe9"', "\xe9"), ('"q=0"', "q=0"), ('"x,y"', "x,y"), ('"\\1"', "1"), ('"A"', "A"), ("A", "A"),
         ("a", "a"), ('"\\\\\\""', '\\"'), ('"\\\\a"', "\\a")]
EXTS = ["", "", "", ";ext", ";e=1", '; e="q=0"', ";q=0", " ;level=1", ";Q=1"]
OWSS = ["", "", "", " ", "\t", "  "]


def quote_value(v):
    """A (text, value) pair in a random spelling of the same value."""
    return v


def gen_param(rng):
    name = rng.choice(PNAMES)
    text, val = rng.choice(PVALS)
    return name, text, val


def gen_element(rng, pool):
    """-> (header text of the element, reference range)"""
    if pool and rng.random() < 0.55:
        t, st, ps = rng.choice(pool)
        r = rng.random()
        if r < 0.2:
            st = "*"
            if rng.random() < 0.7:
                ps = []
        elif r < 0.3:
            t, st = "*", "*"
            if rng.random() < 0.7:
                ps = []
        elif r < 0.45:
            ps = []
        elif r < 0.55 and ps:
            ps = list(reversed(ps))
        elif r < 0.6 and ps:
            ps = ps[:1]
        t = rng.choice([t, t.upper(), t.capitalize()])
        st = rng.choice([st, st.upper()])
        ps = [(rng.choice([n, n.upper()]), tx, v) for n, tx, v in ps]
    else:
        t = rng.choice(TYPES)
        st = rng.choice(SUBTYPES)
        ps = [gen_param(rng) for _ in range(rng.choice([0, 0, 0, 1, 1, 2, 3]))]
    qtext, q = rng.choice(QS)
    s = t + "/" + st
    for n, tx, _ in ps:
        s += rng.choice(OWSS) + ";" + rng.choice(OWSS) + n + "=" + tx
    if qtext is not None:
        s += rng.choice(OWSS) + ";" + rng.choice(OWSS) + rng.choice(["q", "q", "Q"]) + "=" + qtext + rng.choice(EXTS)
    return s, (ascii_lower(t), ascii_lower(st), [(ascii_lower(n), v) for n, _, v in ps], q)


def join_elements(rng, texts, allow_empty=True, one_or_more=False):
    """RFC 7230 section 7 list rules, with optional empty elements and OWS:
         #element  => [ ( "," / element ) *( OWS "," [ OWS element ] ) ]
         1#element => *( "," OWS ) element *( OWS "," [ OWS element ] )"""
    out = ""
    lead = False
    if allow_empty and rng.random() < 0.1:
        if one_or_more:
            out += "".join("," + rng.choice(OWSS) for _ in range(rng.choice([1, 2])))
        else:
            out += ","
            lead = True
    for i, t in enumerate(texts):
        if i or lead:
            out += rng.choice(OWSS) + ","
            if allow_empty and rng.random() < 0.1:
                out += rng.choice(OWSS) + ","
            out += rng.choice(OWSS)
        out += t
    if allow_empty and texts and rng.random() < 0.1:
        out += rng.choice(OWSS) + ","
    return out


def gen_media_pool(rng):
    pool = []
    for _ in range(rng.randrange(1, 4)):
        t = rng.choice(["text", "application", "image", "a"])
        st = rng.choice(["html", "plain", "xml", "json", "b", "xhtml+xml"])
        ps = [gen_param(rng) for _ in range(rng.choice([0, 0, 1, 2]))]
        pool.append((t, st, ps))
    if rng.random() < 0.5:
        pool.append(tuple(rng.choice(HTMLS).split("/")) + ([],))
    return pool


def gen_accept_case(rng, maxel=6):
    pool = gen_media_pool(rng)
    n = rng.choice([0, 1, 1, 2, 2, 3, 3, 4, maxel])
    els = [gen_element(rng, pool) for _ in range(n)]
    header = join_elements(rng, [e[0] for e in els])
    ranges = [e[1] for e in els]
    offers = gen_offers(rng, pool, ranges)
    return header, ranges, offers


INVALID_OFFERS = ["", "text", "text/", "/html", "text/html;", "text/html;a", "text/html;a=", "text/html;q=1", "text/html;Q=0.5",
                  " text/html", "text/html ", "text/html;a=1 ", "text/html\n", "text/html;a=1\n", "text/html\r", "text/ html",
                  "text/html;a=\"1", "text/html;a=\"\\\"", "text//html", "text/html/x", "text/html,", "text/html;a=1;", "te xt/html",
                  "text/html;a=\"\x7f\"", "text/html;a=\"\\\x7f\"", "text/h\xe9", "t\xe9xt/html", "text/html;a=\xe9", "text/html;a b=1",
                  "text/html;=1", "text/html;a==1", "text/(html)", "text/html;a=\"1\"x", "text/html\n\n", "\ntext/html",
                  "text/html;a=[1]", "text/{html}", "text/html;a=1,b=2", "text/html;a=\"\n\""]
WILDCARD_OFFERS = ["*/*", "text/*", "*/html", "*", "text/*;a=1", "*/*;level=1", "application/*"]


def spell_offer(rng, t, st, ps):
    t = rng.choice([t, t, t.upper(), t.capitalize()])
    st = rng.choice([st, st, st.upper(), st.capitalize()])
    s = t + "/" + st
    for n, tx, v in ps:
        n = rng.choice([n, n, n.upper()])
        if rng.random() < 0.3:
            # another spelling of the same value
            if all(c in TCHAR for c in v) and v and rng.random() < 0.5:
                tx = v
            else:
                tx = '"' + v.replace("\\", "\\\\").replace('"', '\\"') + '"'
        s += rng.choice(["", "", " ", "\t"]) + ";" + rng.choice(["", "", " "]) + n + "=" + tx
    return s


def gen_offers(rng, pool, ranges, objs=True):
    offers = []
    concrete = list(pool)
    for rt, rs, rp, _ in ranges:
        t = rt if rt != "*" else rng.choice(["text", "image", "zz"])
        st = rs if rs != "*" else rng.choice(["html", "plain", "zz"])
        concrete.append((t, st, [(n, '"' + v.replace("\\", "\\\\").replace('"', '\\"') + '"', v) for n, v in rp]))
    for _ in range(rng.choice([1, 2, 3, 4, 5, 6, 8])):
        r = rng.random()
        if r < 0.62 and concrete:
            t, st, ps = rng.choice(concrete)
            ps = list(ps)
            m = rng.random()
            if m < 0.15:
                ps = []
            elif m < 0.25 and len(ps) > 1:
                ps.reverse()
            elif m < 0.35:
                ps = ps + [gen_param(rng)]
            elif m < 0.45 and ps:
                n, tx, v = ps[0]
                ps[0] = (n, tx.swapcase(), v.swapcase())
            elif m < 0.5 and ps:
                ps = ps[1:]
            if objs and rng.random() < 0.12:
                offers.append(("obj", t, st, [[ascii_lower(n), v] for n, _, v in ps]))
            else:
                offers.append(spell_offer(rng, t, st, ps))
        elif r < 0.72:
            offers.append(rng.choice(HTMLS + ["application/json", "text/plain", "image/png", "zz/yy"]))
        elif r < 0.76 and objs:
            # hand-built AcceptOffer: upper case, wildcard, non-token components, or a case variant of a pool type
            if concrete and rng.random() < 0.6:
                t, st, ps = rng.choice(concrete)
                offers.append(("obj", rng.choice([t.upper(), t.capitalize(), t]), rng.choice([st.upper(), st, "*"]),
                               [[rng.choice([n.upper(), n.capitalize(), ascii_lower(n)]), v] for n, _, v in ps]))
            else:
                offers.append(non_normal_obj(rng))
        elif r < 0.8:
            offers.append(rng.choice(WILDCARD_OFFERS))
        elif r < 0.9:
            offers.append(rng.choice(INVALID_OFFERS))
        elif offers:
            o = rng.choice(offers)      # exact duplicate, or duplicate up to case
            offers.append(o if rng.random() < 0.5 or isinstance(o, tuple) else o.swapcase())
        else:
            offers.append("text/html")
    return offers


# simple (charset / encoding) -----------------------------------------------------------------
CHARSETS = ["utf-8", "UTF-8", "Utf-8", "iso-8859-1", "ISO-8859-1", "us-ascii", "k", "K", "*", "x", "utf-16", "!#$%&'*+-.^_`|~09Az"]
CODINGS = ["gzip", "GZIP", "GZip", "identity", "IDENTITY", "Identity", "br", "deflate", "compress", "*", "x-gzip", "k"]
SIMPLE_OFFER_EXTRA = ["", " ", "utf-8 ", " gzip", "gzip;q=1", "*", "**", "identity ", "identit", "identityy", "\xe9", "\xc9", "gzip\n",
                      "gz ip", ",", "a,b"]


def gen_simple_case(rng, encoding):
    names = CODINGS if encoding else CHARSETS
    n = rng.choice([1, 1, 2, 2, 3, 3, 4, 5, 7])
    if encoding and rng.random() < 0.07:
        n = 0
    entries, texts = [], []
    sub = rng.sample(names, rng.randrange(1, min(5, len(names)) + 1))
    for _ in range(n):
        name = rng.choice(sub) if rng.random() < 0.8 else rng.choice(names)
        qtext, q = rng.choice(QS)
        s = name
        if qtext is not None:
            s += rng.choice(OWSS) + ";" + rng.choice(OWSS) + rng.choice(["q", "Q"]) + "=" + qtext
        entries.append((name, q))
        texts.append(s)
    if n == 0:
        header = rng.choice(["", ",", ", ,"])
    else:
        header = join_elements(rng, texts, one_or_more=not encoding)
    offers = []
    for _ in range(rng.choice([1, 2, 3, 4, 5, 6, 8])):
        r = rng.random()
        if r < 0.6:
            o = rng.choice(sub)
            offers.append(rng.choice([o, o.upper(), o.lower(), o.capitalize()]))
        elif r < 0.8:
            offers.append(rng.choice(names))
        elif r < 0.9:
            offers.append("identity" if encoding else "utf-8")
        else:
            offers.append(rng.choice(SIMPLE_OFFER_EXTRA))
    return header, entries, offers


# ----------------------------------------------------------------------------------------------
# Running the implementation
# ----------------------------------------------------------------------------------------------
def q1000(q):
    return int(round(float(q) * 1000))


def mk_offer(o):
    from webob.acceptparse import AcceptOffer
    if isinstance(o, (tuple, list)):
        return AcceptOffer(o[1], o[2], tuple((n, v) for n, v in o[3]))
    return o


def canon_offer(o):
    """Canonical Python value of a returned offer object."""
    from webob.acceptparse import AcceptOffer
    if isinstance(o, AcceptOffer):
        return [o.type, o.subtype, [[n, v] for n, v in o.params]]
    return o


def canon_ref_offer(o):
    if isinstance(o, (tuple, list)):
        return [o[1], o[2], [[n, v] for n, v in o[3]]]
    return o


def canon_result(res):
    if isinstance(res, Err):
        return res
    return [[canon_offer(o), q1000(q)] for o, q in res]


def impl_accept(header, offers):
    from webob.acceptparse import create_accept_header
    h = create_accept_header(header)
    return h, catch(lambda: canon_result(h.acceptable_offers([mk_offer(o) for o in offers])))


def impl_simple(header, offers, encoding):
    from webob.acceptparse import create_accept_charset_header, create_accept_encoding_header
    h = (create_accept_encoding_header if encoding else create_accept_charset_header)(header)
    return h, catch(lambda: canon_result(h.acceptable_offers(list(offers))))


def impl_parse_offer(s):
    from webob.acceptparse import Accept

    def f():
        r = Accept.parse_offer(s)
        return [r.type, r.subtype, [[n, v] for n, v in r.params]]
    return catch(f)


# ----------------------------------------------------------------------------------------------
# Oracles (return None or (key, message))
# ----------------------------------------------------------------------------------------------
ODD_KEY = "accept:acceptoffer-instance-not-normalised"


def odd_obj_key(offers, got, want, default):
    """ODD_KEY when the only disagreement concerns hand-built AcceptOffer instances that parse_offer would have
    normalised or refused (upper case, wildcard, non-token components); `default` otherwise."""
    if not isinstance(got, list) or not isinstance(want, list):
        return default
    odd = [json.dumps(canon_ref_offer(o)) for o in offers if isinstance(o, (tuple, list)) and not normalised_obj(tuple(o))]
    if odd and [g for g in got if json.dumps(g[0]) not in odd] == [w for w in want if json.dumps(w[0]) not in odd]:
        return ODD_KEY
    return default


def classify_accept(header, ranges, offers, got, want):
    """A specific key for a disagreement between webob and the reference."""
    for o in offers:
        if isinstance(o, str) and o.endswith("\n") and ref_parse_media_type(o) is None \
                and ref_parse_media_type(o[:-1]) is not None and isinstance(got, list) and any(g[0] == o for g in got):
            return "accept:offer-with-trailing-newline-accepted"
    if isinstance(got, Err):
        return "accept:raises-" + got.name
    if odd_obj_key(offers, got, want, None):
        return ODD_KEY
    gs = [json.dumps(g[0]) for g in got]
    ws = [json.dumps(w[0]) for w in want]
    if sorted(gs) != sorted(ws):
        return "accept:acceptable-set"
    if gs != ws:
        return "accept:order"
    return "accept:quality"


def oracle_accept(header, ranges, offers):
    from webob.acceptparse import AcceptValidHeader
    h, got = impl_accept(header, offers)
    if not isinstance(h, AcceptValidHeader):
        return ("accept:valid-header-rejected", "create_accept_header(%r) is %s, the header is valid by construction"
                % (header, type(h).__name__))
    want = [[canon_ref_offer(o), q] for o, q in ref_accept(ranges, offers)]
    if got != want:
        return (classify_accept(header, ranges, offers, got, want),
                "Accept %r offers %r: acceptable_offers gave %r, the property says %r" % (header, offers, got, want))
    html_want = bool(ref_accept(ranges, HTMLS))
    for name, f in (("accept_html()", lambda: h.accept_html()), ("accepts_html", lambda: h.accepts_html)):
        hv = catch(f)
        if hv is not html_want:
            return ("accept:accept_html", "Accept %r: %s is %r but %s" % (
                header, name, hv, "one of the HTML types is acceptable" if html_want else "no HTML type is acceptable"))
    return None


def oracle_simple(header, entries, offers, encoding):
    from webob.acceptparse import AcceptCharsetValidHeader, AcceptEncodingValidHeader
    kind = "encoding" if encoding else "charset"
    h, got = impl_simple(header, offers, encoding)
    if not isinstance(h, AcceptEncodingValidHeader if encoding else AcceptCharsetValidHeader):
        return (kind + ":valid-header-rejected", "header %r is valid by construction but webob made %s" % (header, type(h).__name__))
    want = ref_simple(entries, offers, encoding)
    if got != want:
        if isinstance(got, Err):
            key = kind + ":raises-" + got.name
        else:
            gs, ws = [g[0] for g in got], [w[0] for w in want]
            idg = [g for g in got if ascii_lower(g[0]) == "identity"]
            idw = [w for w in want if ascii_lower(w[0]) == "identity"]
            if encoding and idg != idw:
                key = "encoding:identity-rule"
            elif sorted(gs) != sorted(ws):
                key = kind + ":acceptable-set"
            elif gs != ws:
                key = kind + ":order"
            else:
                key = kind + ":quality"
        return (key, "Accept-%s %r offers %r: acceptable_offers gave %r, the property says %r"
                % (kind.capitalize(), header, offers, got, want))
    return None


def oracle_nohdr(kind, header, offers):
    """Invalid / missing Accept header: every concrete media-type offer is acceptable with q=1, accept_html is true."""
    from webob.acceptparse import create_accept_header, AcceptValidHeader
    h = create_accept_header(header)
    if isinstance(h, AcceptValidHeader):
        return None
    got = catch(lambda: canon_result(h.acceptable_offers([mk_offer(o) for o in offers])))
    want = [[canon_ref_offer(o), 1000] for o in offers if offer_parse_ref(o) is not None]
    if got != want:
        key = odd_obj_key(offers, got, want, "accept-nohdr:offers")
        if isinstance(got, list) and any(isinstance(g[0], str) and g[0].endswith("\n") for g in got):
            key = "accept:offer-with-trailing-newline-accepted"
        return (key, "%s(%r).acceptable_offers(%r) gave %r, expected %r" % (type(h).__name__, header, offers, got, want))
    if h.accept_html() is not True or h.accepts_html is not True:
        return ("accept-nohdr:accept_html", "%s(%r).accept_html() is not True" % (type(h).__name__, header))
    return None


def oracle_request(header, ranges, offers):
    """The same negotiation reached through Request.accept and through the consumer in exc.py."""
    from webob import Request
    from webob.exc import HTTPNotFound
    req = Request.blank("/", headers={"Accept": header})
    got = catch(lambda: canon_result(req.accept.acceptable_offers([mk_offer(o) for o in offers])))
    want = [[canon_ref_offer(o), q] for o, q in ref_accept(ranges, offers)]
    if got != want:
        key = classify_accept(header, ranges, offers, got, want)
        if key not in ("accept:offer-with-trailing-newline-accepted", ODD_KEY):
            key = "accept:request-attribute"
        return (key, "Request.accept for %r offers %r gave %r, the property says %r" % (header, offers, got, want))
    # consumer: error body type follows the first acceptable of [text/html, application/json]
    ref = ref_accept(ranges, ["text/html", "application/json"])
    want_ct = {"text/html": "text/html", "application/json": "application/json"}.get(ref[0][0] if ref else None, "text/plain")
    status_headers = []
    body = b"".join(HTTPNotFound()(req.environ, lambda s, hd, e=None: status_headers.append((s, hd))))
    ct = dict((k.lower(), v) for k, v in status_headers[0][1]).get("content-type", "")
    if ct.split(";")[0] != want_ct:
        return ("accept:exc-consumer", "HTTPNotFound under Accept %r produced Content-Type %r, the negotiation says %r"
                % (header, ct, want_ct))
    return None


def oracle_parse_offer(s):
    got = impl_parse_offer(s)
    ref = ref_parse_media_type(s)
    want = Err("ValueError") if ref is None else [ref[0], ref[1], [list(p) for p in ref[2]]]
    if got != want:
        key = "parse_offer:grammar"
        if s.endswith("\n") and ref is None and not isinstance(got, Err):
            key = "accept:offer-with-trailing-newline-accepted"
        elif not isinstance(got, Err) and ref is not None:
            key = "parse_offer:normalisation"
        return (key, "Accept.parse_offer(%r) gave %r, the media-type grammar says %r" % (s, got, want))
    return None


# ----------------------------------------------------------------------------------------------
# Coq literals
# ----------------------------------------------------------------------------------------------
def cparams(ps):
    return clist(cpair(cstr(n), cstr(v)) for n, v in ps)


def coffer(o):
    if isinstance(o, (tuple, list)):
        return "(OObj %s %s %s)" % (cstr(o[1]), cstr(o[2]), cparams(o[3]))
    return "(OStr %s)" % cstr(o)


def craw_ranges(parsed):
    """webob's .parsed -> list raw_range"""
    return clist("(%s, %s, %s)" % (cstr(mr), fw.cN(q1000(q)), cparams(ps)) for mr, q, ps, _ in parsed)


def csimple(parsed):
    return clist(cpair(cstr(n), fw.cN(q1000(q))) for n, q in parsed)


def jparsed(parsed):
    return [[mr, q1000(q), [list(p) for p in ps]] for mr, q, ps, _ in parsed]


# ----------------------------------------------------------------------------------------------
# parse_offer string generator (valid, near-valid, boundary characters)
# ----------------------------------------------------------------------------------------------
def gen_offer_strings(rng, n):
    out = list(INVALID_OFFERS) + list(WILDCARD_OFFERS) + list(HTMLS)
    # every ASCII character + a few latin-1 ones in each syntactic position
    for c in [chr(i) for i in range(0, 128)] + ["\x80", "\xa0", "\xe9", "\xff", "Ā", "K"]:
        out += ["te" + c + "xt/html", "text/ht" + c + "ml", "text/html;a" + c + "=1", "text/html;a=1" + c, 'text/html;a="' + c + '"',
                'text/html;a="\\' + c + '"', "text/html" + c, c + "text/html", "text/html;" + c + "a=1", "text/html" + c + ";a=1"]
    pool = [("text", "html", []), ("a", "b", [])]
    while len(out) < n:
        t, st = rng.choice(TYPES), rng.choice(SUBTYPES)
        ps = [gen_param(rng) for _ in range(rng.choice([0, 1, 1, 2, 3]))]
        s = spell_offer(rng, t, st, ps)
        r = rng.random()
        if r < 0.35 and s:
            i = rng.randrange(len(s) + 1)
            m = rng.random()
            c = rng.choice(' \t;="\\/,*qQ\n\r\x7f\xe9()[]{}<>@:?a1')
            if m < 0.4:
                s = s[:i] + c + s[i:]
            elif m < 0.7 and i < len(s):
                s = s[:i] + s[i + 1:]
            elif i < len(s):
                s = s[:i] + c + s[i + 1:]
        out.append(s)
    return out


# ----------------------------------------------------------------------------------------------
# Exhaustive small universes for the oracle
# ----------------------------------------------------------------------------------------------
def small_accept_universe():
    els = []
    for t, st in (("text", "html"), ("text", "*"), ("*", "*"), ("text", "plain"), ("TEXT", "HTML")):
        for ps in ([], [("a", "1", "1")], [("a", '"2"', "2")], [("A", "1", "1"), ("b", "2", "2")]):
            if st == "*" and len(ps) > 1:
                continue
            for qtext, q in ((None, 1000), ("0", 0), ("0.5", 500)):
                s = t + "/" + st + "".join(";%s=%s" % (n, tx) for n, tx, _ in ps) + (";q=" + qtext if qtext else "")
                els.append((s, (ascii_lower(t), ascii_lower(st), [(ascii_lower(n), v) for n, _, v in ps], q)))
    return els


SMALL_OFFERS = ["text/html", "TEXT/html", "text/html;a=1", "text/html;A=\"1\"", "text/html;a=2", "text/html;a=1;b=2", "text/html;b=2;a=1",
                "text/plain", "text/plain;a=1", "image/png", "text/*", "*/*", "text/html", "bogus", ("obj", "text", "html", [["a", "1"]]),
                "application/xml", ("obj", "Text", "HTML", []), ("obj", "text", "*", []), ("obj", "TEXT", "html", [["A", "1"]])]


def small_simple_universe(encoding):
    names = ["gzip", "GZIP", "identity", "*", "br"] if encoding else ["utf-8", "UTF-8", "iso-8859-1", "*", "k"]
    els = []
    for nm in names:
        for qtext, q in ((None, 1000), ("0", 0), ("0.5", 500)):
            els.append((nm + (";q=" + qtext if qtext else ""), (nm, q)))
    return els


# ----------------------------------------------------------------------------------------------
# Histories: ONE long-lived header object serving several different calls; every answer must be what a
# brand-new, identically constructed object answers, and .parsed / str(h) / header_value must not move
# ----------------------------------------------------------------------------------------------
FAMILIES = ("accept", "charset", "encoding")


def make_header(family, header):
    from webob import acceptparse as ap
    return {"accept": ap.create_accept_header, "charset": ap.create_accept_charset_header,
            "encoding": ap.create_accept_encoding_header}[family](header)


def snapshot(h):
    import copy
    return [type(h).__name__, copy.deepcopy(h.parsed), catch(lambda: str(h)), h.header_value, bool(h)]


def do_call(family, h, call, shared):
    """Perform one read-only call.  `shared` maps a list id to ONE Python list object reused across the calls
    of a history (so that an in-place mutation of the caller's list is seen by the next call)."""
    import warnings
    name = call[0]
    with warnings.catch_warnings():
        warnings.simplefilter("ignore")
        if name in ("acceptable_offers", "best_match"):
            key = json.dumps(call[1])
            if key not in shared:
                shared[key] = [mk_offer(o) if family == "accept" else o for o in call[1]]
            lst = shared[key]
            before = list(lst)
            if name == "acceptable_offers":
                r = catch(lambda: canon_result(h.acceptable_offers(lst)))
            else:
                r = catch(lambda: h.best_match(lst))
            if lst != before or any(a is not b for a, b in zip(lst, before)):
                return ("offers-argument-mutated", r)
            return (None, r)
        if name == "accept_html":
            return (None, catch(lambda: h.accept_html()))
        if name == "accepts_html":
            return (None, catch(lambda: h.accepts_html))
        if name == "quality":
            r = catch(lambda: h.quality(call[1]))
            return (None, r if r is None or isinstance(r, Err) else q1000(r))
        if name == "contains":
            return (None, catch(lambda: call[1] in h))
        if name == "iter":
            return (None, catch(lambda: list(h)))
        if name == "str":
            return (None, catch(lambda: str(h)))
        if name == "parsed":
            return (None, catch(lambda: jsonable_parsed(h.parsed)))
        if name == "copy":
            return (None, catch(lambda: snapshot(h.copy())))
    raise ValueError(call)


def jsonable_parsed(p):
    return None if p is None else [list(x) for x in p]


def run_history(family, header, calls):
    """-> (answers of the long-lived object, problem) ; problem = None or (key, message)"""
    h = make_header(family, header)
    snap0 = snapshot(h)
    shared = {}
    answers = []
    for i, call in enumerate(calls):
        mut, got = do_call(family, h, call, shared)
        fresh = make_header(family, header)
        _, want = do_call(family, fresh, call, {})
        answers.append(got)
        where = "%s %r, call #%d %r after %r" % (type(h).__name__, header, i, call, calls[:i])
        if mut:
            return answers, (family + ":stateful:offers-argument-mutated", where + ": the caller's offers list was modified in place")
        if got != want:
            return answers, (family + ":stateful:answer-differs-from-fresh",
                             where + ": the long-lived object answered %r, a fresh object answers %r" % (got, want))
        snap = snapshot(h)
        if snap != snap0:
            return answers, (family + ":stateful:object-changed-by-read",
                             where + ": (type, parsed, str, header_value, bool) went from %r to %r" % (snap0, snap))
    return answers, None


def gen_history(rng, family, maxcalls=7):
    """-> (header, structure-or-None, calls)"""
    if family == "accept":
        header, ranges, offers0 = gen_accept_case(rng)
        struct = ranges
        mode = rng.random()
        if mode < 0.12:
            header, struct = None, None
        elif mode < 0.25:
            header, struct = rng.choice(["text/html;", "text", "a/b;q=2", header + ";", "\x00"]), None
        pool_offers = [gen_offers(rng, gen_media_pool(rng), ranges) for _ in range(3)] + [offers0, list(HTMLS), []]
        stroffers = [o for l in pool_offers for o in l if isinstance(o, str)] or ["text/html"]
    else:
        enc = family == "encoding"
        header, entries, offers0 = gen_simple_case(rng, enc)
        struct = entries
        mode = rng.random()
        if mode < 0.12:
            header, struct = None, None
        elif mode < 0.25:
            header, struct = rng.choice(["utf-8;q=2", "a b", header + ";q", "\x00", "gzip;;"]), None
        pool_offers = [gen_simple_case(rng, enc)[2] for _ in range(3)] + [offers0, list(reversed(offers0)), []]
        pool_offers = [[o for o in l if all(ord(c) < 256 for c in o)] for l in pool_offers]
        stroffers = [o for l in pool_offers for o in l] or ["x"]
    calls = []
    for _ in range(rng.randrange(3, maxcalls + 1)):
        r = rng.random()
        if r < 0.5:
            calls.append(["acceptable_offers", rng.choice(pool_offers)])
        elif r < 0.6 and family == "accept":
            calls.append([rng.choice(["accept_html", "accepts_html"])])
        elif r < 0.7:
            l = [o for o in rng.choice(pool_offers) if isinstance(o, str)]
            calls.append(["best_match", l])
        elif r < 0.78:
            calls.append(["quality", rng.choice(stroffers)])
        elif r < 0.86:
            calls.append(["contains", rng.choice(stroffers)])
        elif r < 0.9:
            calls.append(["iter"])
        elif r < 0.94:
            calls.append(["str"])
        elif r < 0.97:
            calls.append(["parsed"])
        else:
            calls.append(["copy"])
    return header, struct, calls


def jcase_history(family, header, struct, calls):
    return {"kind": "history", "family": family, "header": header, "calls": calls,
            "structure": None if struct is None else jsonable_struct(struct)}


def jsonable_struct(struct):
    return [[list(y) if isinstance(y, (list, tuple)) and not isinstance(y, str) else y for y in x] for x in struct]


def fix_offers(l):
    return [tuple(o) if isinstance(o, list) else o for o in l]


def fix_calls(calls):
    return [[c[0]] + ([fix_offers(c[1])] if c[0] in ("acceptable_offers", "best_match") else list(c[1:])) for c in calls]


def oracle_history(family, header, struct, calls):
    """One long-lived object vs fresh objects, and (valid header with known structure) vs the reference negotiator."""
    answers, problem = run_history(family, header, calls)
    if problem:
        return problem
    if struct is not None:
        for call, got in zip(calls, answers):
            if call[0] == "acceptable_offers":
                if family == "accept":
                    ranges = [(t, st, [tuple(p) for p in ps], q) for t, st, ps, q in struct]
                    want = [[canon_ref_offer(o), q] for o, q in ref_accept(ranges, call[1])]
                else:
                    want = ref_simple([tuple(e) for e in struct], call[1], family == "encoding")
                if got != want:
                    return (odd_obj_key(call[1], got, want, family + ":stateful:answer-differs-from-reference"),
                            "%s header %r call %r in history %r gave %r, the property says %r"
                            % (family, header, call, calls, got, want))
    return None


def eval_plain(c):
    family, header, offers = c
    h = make_header(family, header)
    return catch(lambda: canon_result(h.acceptable_offers([mk_offer(o) if family == "accept" else o for o in offers])))


def eval_in_fresh_process(cases, order):
    """Evaluate cases[i] for i in `order` in a brand-new interpreter (module-level state reset); -> {i: answer}."""
    import os
    import subprocess
    import sys
    code = ("import json,sys\nfrom harness.props import c04\nd=json.load(sys.stdin)\n"
            "out={}\nfor i in d['order']:\n    f,h,o=d['cases'][i]\n    out[i]=c04.jsonable_answer(c04.eval_plain((f,h,c04.fix_offers(o))))\n"
            "json.dump(out,sys.stdout)\n")
    payload = json.dumps({"order": list(order),
                          "cases": [[f, h, [list(o) if isinstance(o, tuple) else o for o in of]] for f, h, of in cases]})
    p = subprocess.run([sys.executable, "-B", "-W", "ignore", "-c", code], input=payload, capture_output=True, text=True,
                       cwd=fw.ROOT, env=dict(os.environ))
    if p.returncode != 0:
        raise RuntimeError("fresh-process evaluation failed: " + p.stderr[-500:])
    return {int(k): v for k, v in json.loads(p.stdout).items()}


def jsonable_answer(a):
    return json.loads(json.dumps(fw.jsonable(a)))


def oracle_order_independence(cases):
    """Module-level state: the same (family, header, offers) inputs must be answered alike whatever was evaluated before
    them: forward order in this process, reverse order in this process, and reverse order in a brand-new interpreter
    (a persistent process-wide cache filled by the forward pass would otherwise hide itself).
    -> None or (index, message)"""
    first = [jsonable_answer(eval_plain(c)) for c in cases]
    for i in reversed(range(len(cases))):
        again = jsonable_answer(eval_plain(cases[i]))
        if again != first[i]:
            return (i, "inputs %r answered %r in forward order and %r when re-evaluated in reverse order" % (cases[i], first[i], again))
    other = eval_in_fresh_process(cases, list(reversed(range(len(cases)))))
    for i, c in enumerate(cases):
        if other[i] != first[i]:
            return (i, "inputs %r answered %r after the calls before them in this process, but %r in a new process where they "
                       "were evaluated in the opposite order" % (c, first[i], other[i]))
    return None


# ----------------------------------------------------------------------------------------------
# Configurations (every way of obtaining the header object), argument shapes, value domains
# ----------------------------------------------------------------------------------------------
ENV_KEY = {"accept": "HTTP_ACCEPT", "charset": "HTTP_ACCEPT_CHARSET", "encoding": "HTTP_ACCEPT_ENCODING"}
HDR_NAME = {"accept": "Accept", "charset": "Accept-Charset", "encoding": "Accept-Encoding"}
REQ_ATTR = {"accept": "accept", "charset": "accept_charset", "encoding": "accept_encoding"}
HOWS = ["create", "direct-class", "subclass", "create-from-object", "copy", "request-headers", "request-environ-later",
        "request-setter-str", "request-setter-object", "request-blank-keyword", "request-environ-replaced", "setter-list"]


def valid_class(family):
    from webob import acceptparse as ap
    return {"accept": ap.AcceptValidHeader, "charset": ap.AcceptCharsetValidHeader,
            "encoding": ap.AcceptEncodingValidHeader}[family]


def setter_value(family, struct):
    """The structure as the list form accepted by the request attribute setters (webob renders the header itself)."""
    if family == "accept":
        out = []
        for t, st, ps, q in struct:
            mr = t + "/" + st + "".join(';%s="%s"' % (n, v.replace("\\", "\\\\").replace('"', '\\"')) for n, v in ps)
            out.append((mr, q / 1000.0, ""))
        return out
    return [(name, q / 1000.0) for name, q in struct]


def obtain(family, header, how, struct=None):
    """The header object for `header`, obtained in the way `how`; None when that way does not apply."""
    from webob import Request
    base = make_header(family, header)
    vc = valid_class(family)
    if how == "create":
        return base
    if how == "direct-class":
        return vc(header_value=header) if isinstance(base, vc) else type(base)(*([] if header is None else [header]))
    if how == "subclass":
        if not isinstance(base, vc):
            return None
        return type("Sub", (vc,), {})(header)
    if how == "create-from-object":
        return make_header(family, base)
    if how == "copy":
        return base.copy()
    attr, key, name = REQ_ATTR[family], ENV_KEY[family], HDR_NAME[family]
    if how == "request-headers":
        return getattr(Request.blank("/", headers={} if header is None else {name: header}), attr)
    if how == "request-environ-later":
        req = Request.blank("/")
        getattr(req, attr)                      # read once before the key exists
        if header is not None:
            req.environ[key] = header
        return getattr(req, attr)
    if how == "request-environ-replaced":
        req = Request.blank("/", headers={name: "zz/yy;q=0.3" if family == "accept" else "zz;q=0.3"})
        getattr(req, attr).acceptable_offers(["zz/yy"] if family == "accept" else ["zz"])
        if header is None:
            del req.environ[key]
        else:
            req.environ[key] = header
        return getattr(req, attr)
    if how == "request-setter-str":
        req = Request.blank("/", headers={name: "zz/yy" if family == "accept" else "zz"})
        setattr(req, attr, header)
        return getattr(req, attr)
    if how == "request-setter-object":
        req = Request.blank("/")
        setattr(req, attr, base)
        return getattr(req, attr)
    if how == "request-blank-keyword":
        return getattr(Request.blank("/", **{attr: header}), attr)
    if how == "setter-list":
        if struct is None or not struct or not isinstance(base, vc):
            return None
        req = Request.blank("/")
        setattr(req, attr, setter_value(family, struct))
        return getattr(req, attr)
    raise ValueError(how)


class StrSub(str):
    pass


def shaped_calls(family, h, offers, every=True, pick=0):
    """(shape name, answer) for the accepted ways of passing the same offers: all of them (`every`), or the plain list
    and one other chosen by `pick` (each way of obtaining the object sees every shape over the run)."""
    objs = [mk_offer(o) if family == "accept" else o for o in offers]
    shapes = [("list-positional", lambda: h.acceptable_offers(list(objs))),
              ("list-keyword", lambda: h.acceptable_offers(offers=list(objs))),
              ("tuple", lambda: h.acceptable_offers(tuple(objs))),
              ("str-subclass", lambda: h.acceptable_offers([StrSub(o) if type(o) is str else o for o in objs])),
              ("equal-not-identical", lambda: h.acceptable_offers(
                  [("".join(list(o)) if type(o) is str else type(o)(*o)) for o in objs]))]
    if not every:
        shapes = [shapes[0], shapes[1 + pick % 4]]
    return [(name, catch(lambda f=f: canon_result(f()))) for name, f in shapes]


def identity_problem(family, h, offers):
    """Every returned offer IS (identity) an element of the offers passed; for equal duplicates the first one."""
    objs = [mk_offer(o) if family == "accept" else ("".join(list(o)) if o else o) for o in offers]
    res = catch(lambda: h.acceptable_offers(objs))
    if isinstance(res, Err):
        return None
    for o, _q in res:
        if not any(o is x for x in objs):
            return "returned offer %r is not one of the objects passed in" % (o,)
        if family == "accept" and isinstance(h, valid_class(family)):
            first = next(x for x in objs if x == o and type(x) is type(o))
            if o is not first:
                return "returned offer %r is not the FIRST of the equal objects passed in" % (o,)
    return None


def oracle_config(family, header, struct, offers):
    """All constructions x all argument shapes must answer like the reference (valid header of known structure) and like
    the plain create_*_header object."""
    base = make_header(family, header)
    plain = catch(lambda: canon_result(base.acceptable_offers([mk_offer(o) if family == "accept" else o for o in offers])))
    want = plain
    if struct is not None and isinstance(base, valid_class(family)):
        if family == "accept":
            want = [[canon_ref_offer(o), q] for o, q in ref_accept(struct, offers)]
        else:
            want = ref_simple(struct, offers, family == "encoding")
        if plain != want:
            return (odd_obj_key(offers, plain, want, family + ":config:create"),
                    "%s header %r offers %r gave %r, the property says %r" % (family, header, offers, plain, want))
    for how in HOWS:
        try:
            h = obtain(family, header, how, struct)
        except Exception as e:  # noqa
            return (family + ":config:" + how, "obtaining the %s header object for %r via %s raised %s: %s"
                    % (family, header, how, type(e).__name__, e))
        if h is None:
            continue
        if type(h).__name__ not in (type(base).__name__, "Sub"):
            return (family + ":config:" + how, "%s header %r obtained via %s is a %s, create_* gives a %s"
                    % (family, header, how, type(h).__name__, type(base).__name__))
        calls = shaped_calls(family, h, offers, every=(how == "create"), pick=zlib.crc32(("%r/%s" % (header, how)).encode()))
        for shape, got in calls:
            if got != want:
                return (family + ":config:%s:%s" % (how, shape),
                        "%s header %r obtained via %s, offers %r passed as %s: acceptable_offers gave %r, expected %r"
                        % (family, header, how, offers, shape, got, want))
        if family == "accept":
            hv = catch(lambda: [h.accept_html(), h.accepts_html])
            bw = catch(lambda: [base.accept_html(), base.accepts_html])
            if hv != bw:
                return ("accept:config:%s:accept_html" % how, "Accept %r via %s: accept_html/accepts_html %r, expected %r" % (header, how, hv, bw))
    idp = identity_problem(family, base, offers)
    if idp:
        return (family + ":shape:identity", "%s header %r offers %r: %s" % (family, header, offers, idp))
    if family == "accept":
        # pre-parsed offers (the documented use of AcceptOffer): same verdicts, the AcceptOffer objects are returned
        from webob.acceptparse import Accept
        pre, keep = [], []
        for o in offers:
            if isinstance(o, str):
                po = catch(lambda: Accept.parse_offer(o))
                if isinstance(po, Err):
                    continue
                pre.append(po)
                keep.append(o)
        got = catch(lambda: [[[x.type, x.subtype, [list(p) for p in x.params]], q1000(q)] for x, q in base.acceptable_offers(pre)])
        ref = ref_accept(struct, [("obj", p.type, p.subtype, [list(x) for x in p.params]) for p in pre]) \
            if struct is not None and isinstance(base, valid_class(family)) else None
        if ref is not None and got != [[canon_ref_offer(o), q] for o, q in ref]:
            return ("accept:shape:pre-parsed", "Accept %r with offers %r pre-parsed by Accept.parse_offer gave %r, expected %r"
                    % (header, keep, got, [[canon_ref_offer(o), q] for o, q in ref]))
        from webob.acceptparse import MIMEAccept
        import warnings
        with warnings.catch_warnings():
            warnings.simplefilter("ignore")
            mv = catch(lambda: MIMEAccept(header).accept_html()) if header is not None else None
        if header is not None and mv != catch(lambda: base.accept_html()):
            return ("accept:config:MIMEAccept:accept_html", "MIMEAccept(%r).accept_html() is %r, the header object says %r"
                    % (header, mv, base.accept_html()))
    return None


# --- outside the modelled / stated domain: what remains meaningful is checked on the real code -----------------
WIDE = ["u\u017f-ascii", "compre\u017f\u017f", "\u212a", "\u0130", "utf-8\u0100", "\u1e9e", "\u017f", "\U0001d4d0", "K\u0301", "gz\u0131p", "\u212a".lower()]


def py_lower_ref_simple(entries, offers, encoding):
    """ref_simple with CPython's str.lower as the case folding (what the implementation documents nowhere but does)."""
    out = []
    for idx, o in enumerate(offers):
        lo = o.lower()
        q = None
        for name, qq in entries:
            if name != "*" and name.lower() == lo:
                q = qq
                break
        else:
            for name, qq in entries:
                if name == "*":
                    q = qq
                    break
            else:
                if encoding and lo == "identity":
                    q = 1000
        if q:
            out.append((o, q, idx))
    out.sort(key=lambda e: (-e[1], e[2]))
    return [[o, q] for o, q, _ in out]


def sane_result(res, objs):
    """Weak postcondition for inputs outside the statement: a list of (offer-from-the-input, 0<q<=1) sorted by q."""
    if not isinstance(res, list):
        return "result is %r" % (res,)
    last = None
    for item in res:
        if not (isinstance(item, tuple) and len(item) == 2):
            return "malformed item %r" % (item,)
        o, q = item
        if not any(o is x for x in objs):
            return "returned offer %r was not passed in" % (o,)
        if not (0 < q <= 1):
            return "quality %r out of (0, 1]" % (q,)
        if last is not None and q > last:
            return "not sorted by quality"
        last = q
    return None


def oracle_outside(family, header, struct, offers, rng):
    h = make_header(family, header)
    valid = struct is not None and isinstance(h, valid_class(family))
    objs = [mk_offer(o) if family == "accept" else o for o in offers]
    # (1) non-sequence iterables: the right answer or TypeError, never a wrong answer
    plain = catch(lambda: canon_result(h.acceptable_offers(list(objs))))
    for name, arg in (("iterator", lambda: iter(list(objs))), ("generator", lambda: (o for o in objs))):
        got = catch(lambda: canon_result(h.acceptable_offers(arg())))
        if got != plain and got != Err("TypeError"):
            return (family + ":outside:" + name, "%s header %r offers %r passed as %s gave %r (list gives %r)"
                    % (family, header, offers, name, got, plain))
    # (2) str offers beyond latin-1
    wide = list(offers) + [rng.choice(WIDE) for _ in range(2)]
    rng.shuffle(wide)
    if family == "accept":
        wide = [o if isinstance(o, tuple) else o for o in wide] + ["text/html;a=\"\u0100\"", "te\u212at/html", "text/html\u2028"]
        got = catch(lambda: canon_result(h.acceptable_offers([mk_offer(o) for o in wide])))
        want = [[canon_ref_offer(o), q] for o, q in ref_accept(struct, wide)] if valid else \
            [[canon_ref_offer(o), 1000] for o in wide if offer_parse_ref(o) is not None]
    else:
        # spellings of the header's own names with characters whose case mappings leave ASCII or arrive in it:
        # U+017F LONG S (lower: itself, casefold: s), U+212A KELVIN (lower: k), U+0130 / U+0131 dotted / dotless i
        for name, _q in (struct or []):
            for a, b in (("s", "\u017f"), ("S", "\u017f"), ("k", "\u212a"), ("K", "\u212a"), ("i", "\u0131"), ("I", "\u0130")):
                if a in name:
                    wide.append(name.replace(a, b, 1))
        got = catch(lambda: canon_result(h.acceptable_offers(list(wide))))
        want = py_lower_ref_simple(struct, wide, family == "encoding") if valid else [[o, 1000] for o in wide]
    if got != want:
        return (odd_obj_key(wide, got, want, family + ":outside:non-latin1-offers"),
                "%s header %r offers %r gave %r, expected %r" % (family, header, wide, got, want))
    # (3) hand-built AcceptOffer objects: in the statement's domain (same verdict as their text form)
    if family == "accept":
        odd = list(offers) + [non_normal_obj(rng), non_normal_obj(rng)]
        got = catch(lambda: canon_result(h.acceptable_offers([mk_offer(o) for o in odd])))
        want = [[canon_ref_offer(o), q] for o, q in ref_accept(struct, odd)] if valid else \
            [[canon_ref_offer(o), 1000] for o in odd if offer_parse_ref(o) is not None]
        if got != want:
            return (odd_obj_key(odd, got, want, "accept:acceptoffer-instance"), "Accept %r offers %r gave %r, the property says %r" % (header, odd, got, want))
    # (4) offers that are not str: only TypeError / AttributeError, or a sane result
    for bad in (b"text/html", None, 7, ("text", "html"), ["text/html"]):
        mixed = list(objs) + [bad]
        try:
            res = h.acceptable_offers(mixed)
        except (TypeError, AttributeError):
            continue
        except Exception as e:  # noqa
            return (family + ":outside:non-str-offer", "%s header %r with offer %r raised %s" % (family, header, bad, type(e).__name__))
        msg = sane_result(res, mixed)
        if msg:
            return (family + ":outside:non-str-offer", "%s header %r with offer %r: %s" % (family, header, bad, msg))
    # (5) header text that no WSGI server can deliver (code points >= 256): an invalid-header object, every offer acceptable
    for weird in ("text/html\u0100", "\u212a", "utf-8, \u00e9\u0100"):
        try:
            hw = make_header(family, weird)
            res = hw.acceptable_offers(list(objs))
        except Exception as e:  # noqa
            return (family + ":outside:non-latin1-header", "header %r raised %s" % (weird, type(e).__name__))
        gotw = catch(lambda: canon_result(res))
        wantw = [[canon_ref_offer(o), 1000] for o in offers if family != "accept" or offer_parse_ref(o) is not None]
        if isinstance(hw, valid_class(family)) or gotw != wantw:
            return (odd_obj_key(offers, gotw, wantw, family + ":outside:non-latin1-header"),
                    "header %r gave a %s answering %r, expected %r" % (weird, type(hw).__name__, gotw, wantw))
    return None


REGRESSION = [
    ("accept", "*/*;q=0.1, text/*;q=0.5, text/html;q=0.9", [("*", "*", [], 100), ("text", "*", [], 500), ("text", "html", [], 900)],
     ["text/html", "text/plain", "image/png"]),
    ("accept", "*/*;q=0.9, text/*;q=0.1", [("*", "*", [], 900), ("text", "*", [], 100)], ["text/plain", "image/png", "text/html"]),
    ("accept", "*/*;q=0, text/*, */*", [("*", "*", [], 0), ("text", "*", [], 1000), ("*", "*", [], 1000)], ["image/png", "text/x"]),
    ("accept", "*/*;q=0.5, text/html;q=0, text/*;q=0.7", [("*", "*", [], 500), ("text", "html", [], 0), ("text", "*", [], 700)],
     ["text/html", "text/xml", "a/b"]),
    ("charset", "utf-8;q=0.5, UTF-8;q=0.9, Utf-8;q=0", [("utf-8", 500), ("UTF-8", 900), ("Utf-8", 0)], ["UTF-8", "utf-8", "x"]),
    ("charset", "UTF-8;q=0, utf-8;q=0.9, *;q=0.1", [("UTF-8", 0), ("utf-8", 900), ("*", 100)], ["utf-8", "Utf-8", "x"]),
    ("encoding", "GZIP;q=0.2, gzip;q=1, identity;q=0, IDENTITY", [("GZIP", 200), ("gzip", 1000), ("identity", 0), ("IDENTITY", 1000)],
     ["gzip", "GZip", "identity", "Identity"]),
    ("encoding", "*;q=0, *;q=1, Identity;q=0.5", [("*", 0), ("*", 1000), ("Identity", 500)], ["identity", "br"]),
]


# ----------------------------------------------------------------------------------------------
# Regenerated obligations: character classes and the HTML offer lists, read from the live source
# ----------------------------------------------------------------------------------------------
def gen_text():
    import ast
    import inspect
    import re
    import webob.acceptparse as ap
    A = ap.Accept
    def cls(pred):
        return [c for c in range(1024) if pred(chr(c))]
    tchar = cls(lambda ch: re.fullmatch(ap.tchar_re, ch) is not None)
    ows = cls(lambda ch: ch != "" and re.fullmatch(ap.OWS_re, ch) is not None)
    qdtext = cls(lambda ch: re.fullmatch(A.qdtext_re, ch) is not None)
    qpchar = cls(lambda ch: re.fullmatch(A.quoted_pair_re, "\\" + ch) is not None)
    tree = ast.parse(inspect.getsource(ap))
    lists = {}
    for node in tree.body:
        if isinstance(node, ast.ClassDef) and node.name in ("AcceptValidHeader", "_AcceptInvalidOrNoHeader"):
            for f in node.body:
                if isinstance(f, ast.FunctionDef) and f.name == "accept_html":
                    ls = [n for n in ast.walk(f) if isinstance(n, ast.List)]
                    if len(ls) != 1 or not all(isinstance(e, ast.Constant) and isinstance(e.value, str) for e in ls[0].elts):
                        raise ValueError("accept_html of %s: cannot find the literal offer list" % node.name)
                    lists[node.name] = [e.value for e in ls[0].elts]
    if set(lists) != {"AcceptValidHeader", "_AcceptInvalidOrNoHeader"}:
        raise ValueError("accept_html not found in both classes")
    def nl(xs): return "[" + "; ".join("%d%%N" % x for x in xs) + "]"
    def sl(xs): return "[" + "; ".join('H "%s"' % x.encode("latin-1").hex() for x in xs) + "]"
    out = ["(* REGENERATED from %s by harness/props/c04.py gen(ctx) - do not edit *)" % "webob/acceptparse.py",
           "From Coq Require Import NArith List String.", "Require Import Webob.Lib.Val.", "Import ListNotations.",
           "Local Open Scope string_scope.",
           "(* code points < 1024 accepted by tchar_re / one OWS character / qdtext_re / the second character of quoted_pair_re *)",
           "Definition gen_tchar : list N := %s." % nl(tchar),
           "Definition gen_ows : list N := %s." % nl(ows),
           "Definition gen_qdtext : list N := %s." % nl(qdtext),
           "Definition gen_qpchar : list N := %s." % nl(qpchar),
           "(* the literal offer lists of AcceptValidHeader.accept_html and _AcceptInvalidOrNoHeader.accept_html *)",
           "Definition gen_html_offers : list str := %s." % sl(lists["AcceptValidHeader"]),
           "Definition gen_html_offers_nohdr : list str := %s." % sl(lists["_AcceptInvalidOrNoHeader"])]
    return "\n".join(out) + "\n"


def gen(ctx):
    """Regenerate coq/Gen/C04_tables.v; Proofs/C04_tables.v re-proves that the model's character classes and
    HTML offer list are the source's.  Returns a list of problems (fail-closed)."""
    import os
    import types
    problems = []
    try:
        fw.write_if_changed(os.path.join(fw.COQ, "Gen", "C04_tables.v"), gen_text())
    except Exception as e:  # noqa
        problems.append("C04 translator: %s: %s" % (type(e).__name__, e))
    # Props/C04.v also states parse_offer against C03's regenerated media_type_compiled_re (Gen/C03_regexes.v):
    # bring that file up to date with the live source too, so the language theorems are re-decided on this run
    try:
        from harness.props import c03
        problems += ["C03 translator (used by C04): " + x for x in c03.gen(types.SimpleNamespace(extra={}))]
    except Exception as e:  # noqa
        problems.append("C03 translator (used by C04) failed: %s: %s" % (type(e).__name__, e))
    return problems


# ----------------------------------------------------------------------------------------------
# The check
# ----------------------------------------------------------------------------------------------
def report(ctx, res, case, source):
    if res:
        ctx.fail(res[0], res[1], case, True, source)


def run_case_oracle(case):
    """Re-evaluate the property on one recorded case (used by correspondence follow-up and replay)."""
    k = case["kind"]
    if k == "accept":
        offers = [tuple(o) if isinstance(o, list) else o for o in case["offers"]]
        ranges = [(t, st, [tuple(p) for p in ps], q) for t, st, ps, q in case["ranges"]]
        return oracle_accept(case["header"], ranges, offers) or oracle_request(case["header"], ranges, offers)
    if k in ("charset", "encoding"):
        return oracle_simple(case["header"], [tuple(e) for e in case["entries"]], case["offers"], k == "encoding")
    if k == "parse_offer":
        return oracle_parse_offer(case["offer"])
    if k == "nohdr":
        offers = [tuple(o) if isinstance(o, list) else o for o in case["offers"]]
        return oracle_nohdr(k, case["header"], offers)
    if k in ("config", "outside"):
        fam, header, struct = case["family"], case["header"], case.get("structure")
        offers = fix_offers(case["offers"])
        if struct is not None:
            struct = [(t, st, [tuple(p) for p in ps], q) for t, st, ps, q in struct] if fam == "accept" else [tuple(e) for e in struct]
        if k == "config":
            return oracle_config(fam, header, struct, offers)
        import random
        return oracle_outside(fam, header, struct, offers, random.Random(case.get("rseed", 0)))
    if k == "history":
        return oracle_history(case["family"], case["header"], case.get("structure"), fix_calls(case["calls"]))
    if k == "order":
        res = oracle_order_independence([(f, h, fix_offers(o)) for f, h, o in case["cases"]])
        return ("module-state:order-dependence", res[1]) if res else None
    return None


def jcase_accept(header, ranges, offers):
    return {"kind": "accept", "header": header, "ranges": [[t, st, [list(p) for p in ps], q] for t, st, ps, q in ranges],
            "offers": [list(o) if isinstance(o, tuple) else o for o in offers]}


def corr_followup(ctx, name, cases, bad):
    for i in bad[:8]:
        case = cases[i][2]
        res = run_case_oracle(case)
        if res:
            ctx.fail(res[0], res[1], case, True, "corr")
        else:
            ctx.broken.append("correspondence %s: model and implementation disagree on %s (implementation gave %r)"
                              % (name, json.dumps(case), cases[i][1]))


def non_normal_obj(rng):
    """AcceptOffer instances that parse_offer would not have produced (model mirrors the pass-through)."""
    return ("obj", rng.choice(["Text", "text", "*", "TEXT", "te xt", "", "image"]), rng.choice(["html", "HTML", "*", "Plain", "h\xe9"]),
            rng.choice([[], [], [["A", "1"]], [["a", "1"]], [["Level", "1"]], [["q", "1"]], [["a b", "1"]], [["LEVEL", "a b"]]]))


# ----------------------------------------------------------------------------------------------
# Traceability: which implementation objects are mirrored by hand / regenerated / only exercised by the oracle
# ----------------------------------------------------------------------------------------------
_AP = "webob.acceptparse:"
MODELLED = [_AP + x for x in (
    "AcceptOffer",                                          # offer := OStr | OObj
    "Accept.parse_offer",                                   # parse_offer_str / parse_offer
    "Accept.media_type_compiled_re",                        # span/params_loop/qs_body: hand scanner of this pattern
    "Accept.parameters_compiled_re",                        # params_loop (findall of the parameters)
    "Accept._parse_media_type_params",                      # unquote_param over the raw parameters
    "Accept._process_quoted_string_token",                  # drop_lone_bs / replace_bsbs / process_quoted_string_token
    "Accept._parse_and_normalize_offers",                   # parse_and_normalize
    "AcceptValidHeader.acceptable_offers",                  # lower_range(s), specificity, range_step, offer_step, accept_offers
    "AcceptValidHeader.accept_html",                        # accept_html
    "_AcceptInvalidOrNoHeader.acceptable_offers",           # nohdr_offers
    "AcceptCharsetValidHeader.acceptable_offers",           # hdr_step, offer_q false, simple_offers false
    "AcceptEncodingValidHeader.acceptable_offers",          # hdr_step, offer_q true, simple_offers true
)]
REGENERATED = [_AP + x for x in (
    "tchar_re", "OWS_re", "Accept.qdtext_re", "Accept.quoted_pair_re",      # Gen/C04_tables.v character classes
    "AcceptValidHeader.accept_html", "_AcceptInvalidOrNoHeader.accept_html",  # Gen/C04_tables.v literal offer lists (AST)
    "Accept.media_type_compiled_re", "token_compiled_re",                    # Gen/C03_regexes.v (via c03.gen)
)]
ORACLE_ONLY = [_AP + x for x in (
    "create_accept_header", "create_accept_charset_header", "create_accept_encoding_header",
    "Accept.parse", "AcceptCharset.parse", "AcceptEncoding.parse",           # header text -> .parsed (property C03)
    "AcceptValidHeader.__init__", "AcceptCharsetValidHeader.__init__", "AcceptEncodingValidHeader.__init__",
    "AcceptValidHeader.accepts_html", "_AcceptInvalidOrNoHeader.accept_html", "_AcceptInvalidOrNoHeader.accepts_html",
    "_AcceptCharsetInvalidOrNoHeader.acceptable_offers", "_AcceptEncodingInvalidOrNoHeader.acceptable_offers",
    # read-only calls interleaved in the histories (must not disturb the object or later answers)
    "AcceptValidHeader.best_match", "AcceptValidHeader.quality", "AcceptValidHeader.__contains__",
    "AcceptValidHeader.__iter__", "AcceptValidHeader.__str__", "AcceptValidHeader.copy",
    "_AcceptInvalidOrNoHeader.best_match", "_AcceptInvalidOrNoHeader.quality", "_AcceptInvalidOrNoHeader.__contains__",
    "AcceptCharsetValidHeader.best_match", "AcceptCharsetValidHeader.quality", "AcceptCharsetValidHeader.__contains__",
    "AcceptCharsetValidHeader.__iter__", "AcceptCharsetValidHeader.__str__", "AcceptCharsetValidHeader.copy",
    "AcceptEncodingValidHeader.best_match", "AcceptEncodingValidHeader.quality", "AcceptEncodingValidHeader.__contains__",
    "AcceptEncodingValidHeader.__iter__", "AcceptEncodingValidHeader.__str__", "AcceptEncodingValidHeader.copy",
    # other ways of obtaining the header objects (configuration sweep)
    "MIMEAccept.accept_html", "AcceptNoHeader.copy", "AcceptInvalidHeader.copy",
    "Accept._python_value_to_header_str", "AcceptCharset._python_value_to_header_str",
    "AcceptEncoding._python_value_to_header_str",
    "accept_property", "accept_charset_property", "accept_encoding_property",
)] + ["webob.request:BaseRequest.accept", "webob.request:BaseRequest.accept_charset", "webob.request:BaseRequest.accept_encoding",
      "webob.request:BaseRequest.blank", "webob.exc:WSGIHTTPException.generate_response"]


def run(ctx):
    ctx.modelled(MODELLED)
    ctx.extra["regenerated_from_source"] = REGENERATED
    ctx.extra["oracle_only"] = ORACLE_ONLY
    from webob.acceptparse import (create_accept_header, create_accept_charset_header, create_accept_encoding_header,
                                   AcceptValidHeader)
    for problem in gen(ctx):
        ctx.broken.append(problem)
    ctx.build(["Props/C04.vo"])

    # ------------------------------------------------------------------ correspondence
    rng = ctx.sub_rng("corr")
    n = ctx.scale(600, 6000)

    # parse_offer
    cases = []
    seen = set()
    for k, s in enumerate(gen_offer_strings(rng, ctx.scale(1700, 6000))):
        if any(ord(c) > 255 for c in s) or s in seen:
            continue
        if not ctx.thorough and k % 5 in (1, 3):      # quick tier: a 3/5 sample (the oracle sweeps all of them)
            continue
        seen.add(s)
        cases.append((cstr(s), impl_parse_offer(s), {"kind": "parse_offer", "offer": s}))
    bad = ctx.corr("parse_offer", IMPORTS, "c04_parse_offer", cases, in_type="str")
    corr_followup(ctx, "parse_offer", cases, bad)

    # Accept: acceptable_offers + accept_html on the real .parsed
    cases, hcases, ncases = [], [], []
    for _ in range(n):
        header, ranges, offers = gen_accept_case(rng)
        if rng.random() < 0.08:
            offers = offers + [non_normal_obj(rng)]
        h, got = impl_accept(header, offers)
        j = jcase_accept(header, ranges, offers)
        if not isinstance(h, AcceptValidHeader):
            report(ctx, ("accept:valid-header-rejected", "create_accept_header(%r) is not valid" % header), j, "corr")
            continue
        j["parsed"] = jparsed(h.parsed)
        cases.append((cpair(craw_ranges(h.parsed), clist(coffer(o) for o in offers)), got, j))
        if len(hcases) < n // 3:
            hcases.append((craw_ranges(h.parsed), bool(h.accept_html()), j))
    bad = ctx.corr("accept", IMPORTS, "(fun c => c04_accept (fst c) (snd c))", cases, in_type="(list raw_range * list offer)")
    corr_followup(ctx, "accept", cases, bad)
    bad = ctx.corr("accept_html", IMPORTS, "c04_accept_html", hcases, in_type="(list raw_range)")
    corr_followup(ctx, "accept_html", hcases, bad)
    for _ in range(n // 3):
        header, ranges, offers = gen_accept_case(rng)
        header = rng.choice([None, "text/html;", "text", ", text/html;q=2", "text/html;q=0.1234", header + ";", "\x00"])
        h = create_accept_header(header)
        got = catch(lambda: canon_result(h.acceptable_offers([mk_offer(o) for o in offers])))
        j = {"kind": "nohdr", "header": header, "offers": [list(o) if isinstance(o, tuple) else o for o in offers]}
        ncases.append((clist(coffer(o) for o in offers), got, j))
    bad = ctx.corr("accept_nohdr", IMPORTS, "c04_accept_nohdr", ncases, in_type="(list offer)")
    corr_followup(ctx, "accept_nohdr", ncases, bad)

    # Accept-Charset / Accept-Encoding
    for encoding, name, fn in ((False, "charset", "c04_charset"), (True, "encoding", "c04_encoding")):
        cases = []
        for _ in range(n):
            header, entries, offers = gen_simple_case(rng, encoding)
            offers = [o for o in offers if all(ord(c) < 256 for c in o)]
            h, got = impl_simple(header, offers, encoding)
            j = {"kind": name, "header": header, "entries": [list(e) for e in entries], "offers": offers}
            if h.parsed is None:
                report(ctx, (name + ":valid-header-rejected", "header %r is valid by construction" % header), j, "corr")
                continue
            cases.append((cpair(csimple(h.parsed), clist(cstr(o) for o in offers)), got, j))
        bad = ctx.corr(name, IMPORTS, "(fun c => %s (fst c) (snd c))" % fn, cases, in_type="(list (str * N) * list str)")
        corr_followup(ctx, name, cases, bad)

    # histories: the answers of ONE long-lived valid header object to several acceptable_offers calls must be what the
    # (pure) model answers to each call separately
    for family, fn, ity in (("accept", "c04_accept", "(list raw_range * list (list offer))"),
                            ("charset", "c04_charset", "(list (str * N) * list (list str))"),
                            ("encoding", "c04_encoding", "(list (str * N) * list (list str))")):
        cases = []
        for _ in range(ctx.scale(150, 1500)):
            header, struct, calls = gen_history(rng, family)
            calls = [c for c in calls if c[0] == "acceptable_offers"]
            h = make_header(family, header)
            if struct is None or h.parsed is None or not calls:
                continue
            shared = {}
            outs = [do_call(family, h, c, shared)[1] for c in calls]
            j = jcase_history(family, header, struct, calls)
            if family == "accept":
                lit = cpair(craw_ranges(h.parsed), clist(clist(coffer(o) for o in c[1]) for c in calls))
            else:
                lit = cpair(csimple(h.parsed), clist(clist(cstr(o) for o in c[1]) for c in calls))
            cases.append((lit, outs, j))
        bad = ctx.corr(family + "_history", IMPORTS, "(fun c => VList (map (%s (fst c)) (snd c)))" % fn, cases, in_type=ity)
        corr_followup(ctx, family + "_history", cases, bad)

    # ------------------------------------------------------------------ oracle: configurations, shapes, outside domain
    r4 = ctx.sub_rng("oracle-config")

    def jcs(kind, family, header, struct, offers, **kw):
        d = {"kind": kind, "family": family, "header": header, "structure": None if struct is None else jsonable_struct(struct),
             "offers": [list(o) if isinstance(o, tuple) else o for o in offers]}
        d.update(kw)
        return d
    for family, header, struct, offers in REGRESSION:
        report(ctx, oracle_config(family, header, struct, offers), jcs("config", family, header, struct, offers), "regression")
    ctx.oracle_count("regression", len(REGRESSION), len(REGRESSION))
    for family in FAMILIES:
        cnt = 0
        for i in range(ctx.scale(250, 8000)):
            if family == "accept":
                header, struct, offers = gen_accept_case(r4)
            else:
                header, struct, offers = gen_simple_case(r4, family == "encoding")
            m = r4.random()
            if m < 0.1:
                header, struct = None, None
            elif m < 0.2:
                header, struct = r4.choice(["text/html;", "a b", header + ";;", "\x00", "q=1"]), None
            report(ctx, oracle_config(family, header, struct, offers), jcs("config", family, header, struct, offers), family + "-config")
            if i % 2 == 0:
                rs = r4.randrange(10 ** 6)
                report(ctx, oracle_outside(family, header, struct, offers, __import__("random").Random(rs)),
                       jcs("outside", family, header, struct, offers, rseed=rs), family + "-outside")
            cnt += 1
        ctx.oracle_count(family + "-config", cnt, cnt)
        ctx.oracle_count(family + "-outside", (cnt + 1) // 2, (cnt + 1) // 2)

    # ------------------------------------------------------------------ oracle
    r2 = ctx.sub_rng("oracle")
    r3 = ctx.sub_rng("oracle-history")
    for family in FAMILIES:
        cnt = 0
        for _ in range(ctx.scale(1500, 40000)):
            header, struct, calls = gen_history(r3, family, maxcalls=ctx.scale(7, 12))
            report(ctx, oracle_history(family, header, struct, calls), jcase_history(family, header, struct, calls),
                   family + "-history")
            cnt += 1
        ctx.oracle_count(family + "-history", cnt, cnt)
    # one batch re-uses headers with several different offer lists of the SAME length (permutations, case variants) and
    # of different lengths, so that a process-wide cache keyed on too little gives itself away
    batch = []
    for _ in range(ctx.scale(120, 1500)):
        family = r3.choice(FAMILIES)
        if family == "accept":
            header, _, offers = gen_accept_case(r3)
            alt = gen_offers(r3, gen_media_pool(r3), [])
        else:
            header, _, offers = gen_simple_case(r3, family == "encoding")
            alt = gen_simple_case(r3, family == "encoding")[2]
        variants = [offers, list(reversed(offers)), offers[1:] + offers[:1], (alt * len(offers))[:len(offers)], alt,
                    [o.swapcase() if isinstance(o, str) else o for o in offers]]
        for v in variants:
            batch.append((family, header, v))
    r3.shuffle(batch)
    res = oracle_order_independence(batch)
    if res:
        f0, h0, _ = batch[res[0]]
        small = [c for c in batch if c[0] == f0 and c[1] == h0]
        jb = {"kind": "order", "cases": [[f, h, [list(o) if isinstance(o, tuple) else o for o in of]] for f, h, of in
                                           (small if oracle_order_independence(small) else batch)]}
        ctx.fail("module-state:order-dependence", res[1], jb, True, "order-independence")
    cnt = len(batch)
    ctx.oracle_count("order-independence", cnt, cnt)
    m = ctx.scale(6000, 120000)
    nt = 0
    for i in range(m):
        header, ranges, offers = gen_accept_case(r2, maxel=ctx.scale(6, 10))
        res = oracle_accept(header, ranges, offers)
        if res is None and i % 10 == 0:
            res = oracle_request(header, ranges, offers)
        report(ctx, res, jcase_accept(header, ranges, offers), "accept-random")
        nt += 1 if ranges and any(offer_parse_ref(o) for o in offers) else 0
    ctx.oracle_count("accept-random", m, nt)

    # exhaustive: every header of <= 2 (thorough: 3) elements over the small universe x a fixed offer list
    U = small_accept_universe()
    cnt = 0
    depth = ctx.scale(2, 3)
    for d in range(0, depth + 1):
        if d == 3:
            U3 = [e for e in U if e[1][3] != 500 or not e[1][2]]
            combos = itertools.product(U3[::2], U3, U3[1::2])
        else:
            combos = itertools.product(U, repeat=d)
        for combo in combos:
            header = ", ".join(e[0] for e in combo)
            ranges = [e[1] for e in combo]
            res = oracle_accept(header, ranges, SMALL_OFFERS)
            report(ctx, res, jcase_accept(header, ranges, SMALL_OFFERS), "accept-exhaustive")
            cnt += 1
    ctx.oracle_count("accept-exhaustive", cnt, cnt)

    strs = gen_offer_strings(r2, ctx.scale(4000, 40000))
    for s in strs:
        report(ctx, oracle_parse_offer(s), {"kind": "parse_offer", "offer": s}, "parse_offer")
    ctx.oracle_count("parse_offer", len(strs), len(strs))

    for encoding, name in ((False, "charset"), (True, "encoding")):
        nt = 0
        for _ in range(m):
            header, entries, offers = gen_simple_case(r2, encoding)
            res = oracle_simple(header, entries, offers, encoding)
            report(ctx, res, {"kind": name, "header": header, "entries": [list(e) for e in entries], "offers": offers},
                   name + "-random")
            nt += 1 if entries else 0
        ctx.oracle_count(name + "-random", m, nt)
        U = small_simple_universe(encoding)
        offers = ["gzip", "GZip", "identity", "IDENTITY", "br", "*", "x", "gzip"] if encoding else \
            ["utf-8", "Utf-8", "iso-8859-1", "K", "*", "x", "utf-8"]
        cnt = 0
        for d in range(0 if encoding else 1, ctx.scale(3, 4) + 1):
            for combo in itertools.product(U, repeat=d):
                header = ", ".join(e[0] for e in combo)
                entries = [e[1] for e in combo]
                res = oracle_simple(header, entries, offers, encoding)
                report(ctx, res, {"kind": name, "header": header, "entries": [list(e) for e in entries], "offers": offers},
                       name + "-exhaustive")
                cnt += 1
        ctx.oracle_count(name + "-exhaustive", cnt, cnt)

    cnt = 0
    for _ in range(ctx.scale(500, 5000)):
        header, ranges, offers = gen_accept_case(r2)
        header = r2.choice([None, "text/html;", "text", "text/html;q=2", header + ";", "\x00", "a/b;q=0.1234"])
        report(ctx, oracle_nohdr("nohdr", header, offers),
               {"kind": "nohdr", "header": header, "offers": [list(o) if isinstance(o, tuple) else o for o in offers]}, "accept-nohdr")
        cnt += 1
    ctx.oracle_count("accept-nohdr", cnt, cnt)

    # self-contained histories first: a failure that depends on earlier calls in this process does not reproduce from
    # a single-call replay file, a history / order case does
    ctx.violations.sort(key=lambda v: 0 if ("stateful" in v["key"] or "module-state" in v["key"]) else 1)

    ctx.extra["rule"] = (
        "correspondence: headers rendered from random structures (repeated/overlapping ranges, q=0, parameters in both "
        "orders and both spellings, mixed case, OWS, empty list elements) are parsed by the real webob; the model gets the "
        "real `.parsed` and the same offers (valid, invalid, wildcard, parameterised, duplicated exactly and by case, "
        "AcceptOffer incl. non-normalised ones) and must reproduce acceptable_offers/accept_html exactly; distinct = distinct "
        "Coq input literals.  oracle: the reference negotiator (property text) on the structure vs webob on the rendered "
        "header; non-trivial = header has at least one element and at least one offer is a concrete media type; exhaustive "
        "= every header of <= %d elements over a %d-element universe x %d fixed offers" % (depth, len(small_accept_universe()), len(SMALL_OFFERS)))
    ctx.extra["exhaustive"] = False
    ctx.assume += [
        "offers are str (code points < 256: str.lower is modelled for latin-1 only; U+212A KELVIN SIGN lower-cases to ASCII 'k' "
        "in CPython) or AcceptOffer instances with str fields, hand-built ones included (held to the rules of their text form)",
        "'identical parameters' is read as the same sequence of (lower-cased name, unquoted value) pairs: parameter order and "
        "value case are significant, as in webob; a parameter named q cannot occur in an offer (Accept grammar)",
        "type/* and */* ranges match regardless of parameters attached to the range (RFC 7231 gives them no meaning)",
        "the model starts from the real object's .parsed; exactness of the header parser is property C03 (the oracle here "
        "nevertheless works end-to-end from the header text)",
    ]
    ctx.trusted += ["the Python reference negotiator and media-type parser in harness/props/c04.py (oracle)",
                    "Python list.sort(reverse=True) modelled as reverse/stable insertion sort/reverse; float qvalues as thousandths"]


def replay(ctx, path):
    data = json.load(open(path))
    case = data["case"]
    if not isinstance(case, dict) or "kind" not in case:
        print("replay: nothing executable in this file (broken obligation): %s" % data.get("what"))
        return 1
    res = run_case_oracle(case)
    if res:
        print("VIOLATION property=C04 replay=%s" % path)
        print("  (%s) %s" % (res[0], res[1][:600]))
        return 1
    print("replay passes on the current tree")
    return 0
