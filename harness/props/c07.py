"""C07 — Cookie serialisation is injection-safe and values round-trip (see design_notes/C07.md).

Tie to the source:
  * gen(ctx) regenerates coq/Gen/C07_tables.v from the live webob.cookies module of $WEBOB_REPO (the three
    alphabets, both escape tables, the unquote map, _c_keys/_c_renames, the SameSite literals) and checks that
    _rx_cookie / _rx_unquote still have the structure the hand scanner of coq/Model/C07_CookieCodec.v mirrors
    (parse tree from CPython's own re._parser, fail-closed);
  * correspondence of every model function with the real function on generated inputs;
  * the property oracle on the public API (make_cookie, Response.set_cookie, Cookie, parse_cookie,
    Request.cookies): exhaustive 1- and 2-byte values, delimiter strings for path/domain/comment, all
    attribute combinations, SAMESITE_VALIDATION on and off.
"""
import datetime
import itertools
import json
import os
import re
import time
import warnings

from harness import fw
from harness.fw import Err, catch, cstr, clist, cpair, copt, cbool, cZ

IMPORTS = ["Webob.Lib.PyStr", "Webob.Lib.C07_Utf8", "Webob.Gen.C07_tables", "Webob.Model.C07_CookieCodec"]
GEN_PATH = os.path.join(fw.COQ, "Gen", "C07_tables.v")

WS = frozenset([9, 10, 11, 12, 13, 32])
DIGIT = frozenset(range(48, 58))
WORD = frozenset(list(range(48, 58)) + list(range(65, 91)) + list(range(97, 123)) + [95])
MAXREP = None  # filled from re._constants


def C():
    from webob import cookies
    return cookies


# =========================================================================== gen: tables + regex structure
def _norm(items):
    """CPython re parse tree -> canonical nested tuples; classes become frozensets of octets."""
    import re._constants as sc
    out = []
    for op, a in items:
        if op == sc.LITERAL:
            out.append(("cls", frozenset([a])))
        elif op == sc.NOT_LITERAL:
            out.append(("cls", frozenset(range(256)) - {a}))
        elif op == sc.IN:
            out.append(("cls", _class(a)))
        elif op == sc.ANY:
            out.append(("any",))
        elif op in (sc.MAX_REPEAT, sc.MIN_REPEAT):
            lo, hi, sub = a
            out.append(("rep", lo, None if hi == sc.MAXREPEAT else hi, op == sc.MAX_REPEAT, _norm(sub)))
        elif op == sc.SUBPATTERN:
            grp, add, dele, sub = a
            if add or dele:
                raise ValueError("inline flags in group")
            if grp is None:
                out.extend(_norm(sub))
            else:
                out.append(("grp", grp, _norm(sub)))
        elif op == sc.BRANCH:
            out.append(("alt", tuple(_norm(x) for x in a[1])))
        else:
            raise ValueError("construct %s outside the modelled subset" % (op,))
    return tuple(out)


def _class(items):
    import re._constants as sc
    neg = False
    s = set()
    for op, a in items:
        if op == sc.NEGATE:
            neg = True
        elif op == sc.LITERAL:
            s.add(a)
        elif op == sc.RANGE:
            s.update(range(a[0], a[1] + 1))
        elif op == sc.CATEGORY:
            pat = {sc.CATEGORY_DIGIT: rb"\d", sc.CATEGORY_SPACE: rb"\s", sc.CATEGORY_WORD: rb"\w",
                   sc.CATEGORY_NOT_DIGIT: rb"\D", sc.CATEGORY_NOT_SPACE: rb"\S", sc.CATEGORY_NOT_WORD: rb"\W"}[a]
            rx = re.compile(pat)
            s.update(b for b in range(256) if rx.fullmatch(bytes([b])))
        else:
            raise ValueError("class item %s" % (op,))
    return frozenset(range(256)) - s if neg else frozenset(s)


def _lit(c):
    return ("cls", frozenset([ord(c)]))


def _expected_cookie_rx(legal):
    L = ("cls", legal)
    ws = ("cls", WS)
    oct3 = (("cls", frozenset(range(48, 52))), ("cls", frozenset(range(48, 56))), ("cls", frozenset(range(48, 56))))
    quoted = (_lit('"'), ("rep", 0, None, False, (("alt", ((_lit("\\"), _lit('"')), (("any",),))),)), _lit('"'))
    expires = (("rep", 3, 3, True, (("cls", WORD),)), _lit(","), ws,
               ("rep", 9, 11, True, (("cls", WORD | {45}),)), ws,
               ("rep", 8, 8, True, (("cls", DIGIT | {58}),)), ws, _lit("G"), _lit("M"), _lit("T"))
    unquoted = (("rep", 0, None, True, (("alt", ((L,), (_lit("\\"), ("alt", (oct3, (("any",),)))))),)),)
    return (("grp", 1, (("rep", 1, None, False, (L,)),)),
            ("rep", 0, None, True, (ws,)), _lit("="), ("rep", 0, None, True, (ws,)),
            ("grp", 2, (("alt", (quoted, expires, unquoted)),)))


def _expected_unquote_rx():
    oct3 = (("cls", frozenset(range(48, 52))), ("cls", frozenset(range(48, 56))), ("cls", frozenset(range(48, 56))))
    return (_lit("\\"), ("grp", 1, (("alt", (oct3, (("any",),))),)))


def read_tables():
    """Everything the model takes from the source, as Python values; `problems` lists broken ties."""
    import ast
    import re._parser as sp
    ck = C()
    problems = []
    t = {}
    t["allowed"] = sorted(set(ck._allowed_cookie_bytes))
    t["token"] = sorted(set(ck._valid_token_bytes))
    em = ck._escape_map
    if sorted(em) != list(range(256)):
        problems.append("_escape_map does not have exactly the keys 0..255")
    t["escape"] = [bytes(em.get(i, b"")) for i in range(256)]
    # _path_quote: one table entry per octet (that it works octet by octet is checked by the correspondence)
    pe = []
    for i in range(256):
        r = catch(ck._path_quote, bytes([i]))
        pe.append(r if isinstance(r, bytes) else b"")
        if not isinstance(r, bytes):
            problems.append("_path_quote raises on octet %d" % i)
    t["path_escape"] = pe
    # regex structure
    legal = None
    try:
        if not isinstance(ck._rx_cookie.pattern, bytes) or ck._rx_cookie.flags != 0:
            raise ValueError("_rx_cookie is not a flag-less bytes pattern")
        tree = _norm(sp.parse(ck._rx_cookie.pattern, ck._rx_cookie.flags))
        key = tree[0]
        if key[0] != "grp" or key[2][0][0] != "rep" or key[2][0][4][0][0] != "cls":
            raise ValueError("key group has unexpected shape")
        legal = key[2][0][4][0][1]
        if tree != _expected_cookie_rx(legal):
            raise ValueError("pattern %r does not have the structure of the modelled scanner" % ck._rx_cookie.pattern)
    except Exception as e:  # fail closed
        problems.append("translator: _rx_cookie: %s" % e)
        if legal is None:
            legal = frozenset(b for b in range(256)
                              if (lambda m: m and m.group(1) == bytes([b]) + b"a")(ck._rx_cookie.match(bytes([b]) + b"a=x")))
    t["legal"] = sorted(legal)
    try:
        if not isinstance(ck._rx_unquote.pattern, bytes) or ck._rx_unquote.flags != 0:
            raise ValueError("_rx_unquote is not a flag-less bytes pattern")
        if _norm(sp.parse(ck._rx_unquote.pattern, ck._rx_unquote.flags)) != _expected_unquote_rx():
            raise ValueError("pattern %r does not have the modelled structure" % ck._rx_unquote.pattern)
    except Exception as e:
        problems.append("translator: _rx_unquote: %s" % e)
    um = ck._ch_unquote_map
    want_keys = {b"%03o" % i for i in range(256)} | {bytes([i]) for i in range(256)}
    if set(um) != want_keys or any(not isinstance(v, bytes) or len(v) != 1 for v in um.values()):
        problems.append("_ch_unquote_map does not map exactly the 256 octal triples and 256 single octets to single octets")
    t["unq_oct"] = [(um.get(b"%03o" % i) or b"\0")[0] for i in range(256)]
    t["unq_single"] = [(um.get(bytes([i])) or b"\0")[0] for i in range(256)]
    t["c_keys"] = sorted(ck._c_keys)
    ren = []
    for k in ck._c_valkeys:
        info = ck._c_renames[k]
        q = info["quoter"]
        if q is ck._value_quote:
            tag = "QValue"
        elif q is ck._path_quote:
            tag = "QPath"
        else:
            problems.append("quoter of %r is neither _value_quote nor _path_quote" % k)
            tag = "QPath"
        ren.append((k, info["name"], tag))
    t["renames"] = ren
    if list(ck._c_valkeys) != sorted(ck._c_renames):
        problems.append("_c_valkeys is not sorted(_c_renames)")
    # the SameSite literals inside serialize_samesite
    vals = None
    try:
        src = open(ck.__file__.replace(".pyc", ".py")).read()
        for node in ast.walk(ast.parse(src)):
            if isinstance(node, ast.FunctionDef) and node.name == "serialize_samesite":
                for n2 in ast.walk(node):
                    if isinstance(n2, ast.Compare) and len(n2.ops) == 1 and isinstance(n2.ops[0], ast.NotIn) \
                            and isinstance(n2.comparators[0], (ast.Tuple, ast.List, ast.Set)):
                        vals = [e.value for e in n2.comparators[0].elts]
        if vals is None or not all(isinstance(v, bytes) for v in vals):
            raise ValueError("no `not in (<bytes literals>)` test found")
    except Exception as e:
        problems.append("translator: serialize_samesite: %s" % e)
        vals = [b"strict", b"lax", b"none"]
    t["samesite"] = vals
    return t, problems


def _nlist(xs):
    return "[%s]" % "; ".join(str(x) for x in xs)


def _h(b):
    return '(H "%s"%%string)' % bytes(b).hex() if b else "(@nil N)"


def gen(ctx):
    """Regenerate coq/Gen/C07_tables.v from $WEBOB_REPO/src/webob/cookies.py."""
    t, problems = read_tables()
    out = ["(* GENERATED from src/webob/cookies.py of the tree under check by harness/props/c07.py - do not edit *)",
           "From Coq Require Import NArith List String.", "Require Import Webob.Lib.Val.",
           "Import ListNotations.", "Local Open Scope N_scope.",
           "Inductive quoter := QValue | QPath.",
           "Definition allowed_cookie_bytes : list N := %s." % _nlist(t["allowed"]),
           "Definition valid_token_bytes : list N := %s." % _nlist(t["token"]),
           "Definition legal_bytes : list N := %s." % _nlist(t["legal"]),
           "Definition escape_map : list str := [\n  %s]." % ";\n  ".join(_h(b) for b in t["escape"]),
           "Definition path_escape_map : list str := [\n  %s]." % ";\n  ".join(_h(b) for b in t["path_escape"]),
           "Definition ch_unquote_oct : list N := %s." % _nlist(t["unq_oct"]),
           "Definition ch_unquote_single : list N := %s." % _nlist(t["unq_single"]),
           "Definition c_keys : list str := [%s]." % "; ".join(_h(k) for k in t["c_keys"]),
           "Definition c_renames : list (str * str * quoter) := [%s]." %
           "; ".join("(%s, %s, %s)" % (_h(k), _h(n), q) for k, n, q in t["renames"]),
           "Definition samesite_values : list str := [%s]." % "; ".join(_h(v) for v in t["samesite"])]
    fw.write_if_changed(GEN_PATH, "\n".join(out) + "\n")
    problems = problems + gen_dates(ctx)
    ctx.extra["tables"] = {"allowed": len(t["allowed"]), "token": len(t["token"]), "legal": len(t["legal"]),
                           "allowed_not_legal": bytes(sorted(set(t["allowed"]) - set(t["legal"]))).decode("latin-1")}
    return problems


# =========================================================================== gen: the tables of serialize_cookie_date
GEN_DATES_PATH = os.path.join(fw.COQ, "Gen", "C07_dates.v")
DATE_FORMAT = "%%s, %d-%%s-%%04d %H:%M:%S GMT"


def gen_dates(ctx):
    """Regenerate coq/Gen/C07_dates.v: the `weekdays` and `months` tuples of webob.cookies, and check (by ast) that
    serialize_cookie_date still has the shape Model/C07_CookieDate.v mirrors.  Fail-closed."""
    import ast
    import inspect
    ck = C()
    problems = []
    wd = getattr(ck, "weekdays", None)
    mo = getattr(ck, "months", None)

    def ok_name(x):
        return isinstance(x, str) and all(ord(c) < 128 for c in x)
    if not (isinstance(wd, (tuple, list)) and all(ok_name(x) for x in wd)):
        problems.append("webob.cookies.weekdays is no longer a tuple of ASCII strings")
        wd = ()
    if not (isinstance(mo, (tuple, list)) and all(x is None or ok_name(x) for x in mo)):
        problems.append("webob.cookies.months is no longer a tuple of ASCII strings / None")
        mo = ()
    try:
        tree = ast.parse(inspect.getsource(ck.serialize_cookie_date).lstrip())
        fn = tree.body[0]
        consts = [n.value for n in ast.walk(fn) if isinstance(n, ast.Constant) and isinstance(n.value, str)]
        calls = [ast.unparse(n) for n in ast.walk(fn) if isinstance(n, ast.Call)]
        rets = [ast.unparse(n.value) for n in ast.walk(fn) if isinstance(n, ast.Return) and n.value is not None]
        if DATE_FORMAT not in consts:
            problems.append("serialize_cookie_date: the strftime format is no longer %r (found %r)" % (DATE_FORMAT, consts))
        if not any(c.startswith("time.strftime(") and c.endswith(", v)") for c in calls):
            problems.append("serialize_cookie_date: no time.strftime(<format>, v) call")
        if not any("(weekdays[v[6]], months[v[1]], v[0])" in r and "'ascii'" in r for r in rets):
            problems.append("serialize_cookie_date: the result is no longer r % (weekdays[v[6]], months[v[1]], v[0]) as ascii bytes")
        if not any(c.replace(" ", "") == "datetime.utcnow()" for c in calls) or "v.timetuple()" not in calls:
            problems.append("serialize_cookie_date: the utcnow()+timedelta / timetuple() steps are gone")
    except Exception as e:  # noqa
        problems.append("serialize_cookie_date: source cannot be analysed (%s)" % type(e).__name__)
    out = ["(* GENERATED from src/webob/cookies.py of the tree under check by harness/props/c07.py - do not edit *)",
           "From Coq Require Import NArith List String.", "Require Import Webob.Lib.Val.",
           "Import ListNotations.", "Local Open Scope N_scope.",
           "Definition weekdays : list str := [%s]." % "; ".join(_h(x.encode("ascii")) for x in wd),
           "Definition months : list (option str) := [%s]." %
           "; ".join("None" if x is None else "Some %s" % _h(x.encode("ascii")) for x in mo)]
    fw.write_if_changed(GEN_DATES_PATH, "\n".join(out) + "\n")
    return problems


# =========================================================================== helpers around the real API
RFC_TOKEN = frozenset(b"!#$%&'*+-.^_`|~" + bytes(range(48, 58)) + bytes(range(65, 91)) + bytes(range(97, 123)))
RESERVED = {"path", "comment", "domain", "max-age", "expires", "secure", "httponly", "samesite"}
MONTHS = ["Jan", "Feb", "Mar", "Apr", "May", "Jun", "Jul", "Aug", "Sep", "Oct", "Nov", "Dec"]
DAYS = ["Mon", "Tue", "Wed", "Thu", "Fri", "Sat", "Sun"]
DATE_RX = re.compile(r"^(Mon|Tue|Wed|Thu|Fri|Sat|Sun), (\d\d)-(Jan|Feb|Mar|Apr|May|Jun|Jul|Aug|Sep|Oct|Nov|Dec)-(\d{4}) "
                     r"(\d\d):(\d\d):(\d\d) GMT$")
DELETE_DATE = "Wed, 31-Dec-97 23:59:59 GMT"


class Validation:
    """SAMESITE_VALIDATION is a documented module flag; set it for the duration of a call."""

    def __init__(self, on):
        self.on = on

    def __enter__(self):
        ck = C()
        self.old = ck.SAMESITE_VALIDATION
        ck.SAMESITE_VALIDATION = self.on

    def __exit__(self, *a):
        C().SAMESITE_VALIDATION = self.old


def dec_value(v):
    """JSON form of a value -> Python argument.  None | {"bytes": hex} | {"text": [code points]}"""
    if v is None:
        return None
    if "bytes" in v:
        return bytes.fromhex(v["bytes"])
    if "bytearray" in v:
        return bytearray.fromhex(v["bytearray"])
    return "".join(chr(c) for c in v["text"])


def enc_value(x):
    if x is None:
        return None
    if isinstance(x, bytearray):
        return {"bytearray": bytes(x).hex()}
    if isinstance(x, bytes):
        return {"bytes": x.hex()}
    return {"text": [ord(c) for c in x]}


def dec_attr(v):
    """path/domain/comment: None | {"bytes": hex} (passed as bytes) | {"text": [...]} (passed as str)"""
    return dec_value(v)


def dec_max_age(m):
    """None | int | ["td", days, seconds, microseconds] | ["str", text] | ["float", x] | ["bool", b]"""
    if m is None or isinstance(m, int):
        return m
    if m[0] == "td":
        return datetime.timedelta(days=m[1], seconds=m[2], microseconds=m[3])
    if m[0] == "bool":
        return bool(m[1])
    return m[1]


BAD = "not-a-number"
DEC_INT = re.compile(r"^[+-]?[0-9]+$")


def max_age_seconds(m):
    """The number of seconds the argument asks for: None, an int, or BAD when it is not a number.  A str counts as a
    number when it is an optionally signed decimal numeral (the lenient spellings int() also takes are: either way)."""
    if m is None:
        return None
    if isinstance(m, bool):
        return int(m)
    if isinstance(m, int):
        return m
    if m[0] == "td":
        td = dec_max_age(m)
        return td.days * 86400 + td.seconds
    if m[0] == "bool":
        return int(bool(m[1]))
    if m[0] == "float":
        return int(m[1]) if m[1] == m[1] and abs(m[1]) != float("inf") else BAD
    if DEC_INT.match(m[1]):
        return int(m[1])
    try:
        return ["lenient", int(m[1])]
    except ValueError:
        return BAD


RESP_CONFIGS = [None, {"charset": "utf-8"}, {"charset": "latin-1"}, {"charset": "iso-8859-15"}, {"charset": "utf-16"},
                {"set_charset": "utf-16"}, {"set_charset": "latin-1"}, {"set_charset": "cp1252"},
                {"content_type": "application/json"}, {"content_type": "image/png"},
                {"content_type": "text/html", "charset": "koi8-r"},
                {"subclass_default_charset": "iso-8859-1"}, {"subclass_default_charset": "utf-16-le"},
                {"subclass_default_charset": "ascii"}]


def make_response(cfg):
    """A Response in the configuration `cfg` (the statement quantifies over configurations: set_cookie must not depend
    on the response's charset / content type / subclass defaults)."""
    from webob import Response
    if not cfg:
        return Response()
    if "subclass_default_charset" in cfg:
        class Sub(Response):
            default_charset = cfg["subclass_default_charset"]
        return Sub()
    kw = {}
    if "content_type" in cfg:
        kw["content_type"] = cfg["content_type"]
    if "charset" in cfg:
        kw["charset"] = cfg["charset"]
    resp = Response(**kw)
    if "set_charset" in cfg:
        resp.charset = cfg["set_charset"]
    return resp


def build_call(case):
    """Positional and keyword arguments of the call a JSON case describes, and the value object passed."""
    name = "".join(chr(c) for c in case["name"])
    if case.get("name_bytes") and all(c < 256 for c in case["name"]):
        name = name.encode("latin-1")
    kw = dict(max_age=dec_max_age(case.get("max_age")), path=dec_attr(case.get("path")),
              domain=dec_attr(case.get("domain")), secure=case.get("secure", False),
              httponly=case.get("httponly", False), comment=dec_attr(case.get("comment")),
              samesite=dec_attr(case.get("samesite")))
    if case.get("defaults"):       # leave out what the case does not mention: the callee's own defaults apply
        kw = {k: v for k, v in kw.items() if k in case}
    value = dec_value(case.get("value"))
    args = [name] if (case.get("defaults") and "value" not in case) else [name, value]
    is_set = case.get("api") in ("set_cookie", "delete_cookie")
    if case.get("overwrite") is not None and is_set:
        kw["overwrite"] = case["overwrite"]
    if case.get("positional") and len(args) == 2:
        order = ["max_age", "path", "domain", "secure", "httponly", "comment"] + (["overwrite"] if is_set else []) + ["samesite"]
        full = dict(max_age=None, path="/", domain=None, secure=False, httponly=False, comment=None, overwrite=False, samesite=None)
        full.update(kw)
        args += [full[k] for k in order]
        kw = {}
    return args, kw, value


def call_api(case):
    """Run make_cookie / Response.set_cookie on a JSON case.  Returns (line or Err, t0, t1)."""
    args, kw, value = build_call(case)
    is_set = case.get("api") in ("set_cookie", "delete_cookie")
    ck = C()
    old_should_raise = ck._should_raise
    with Validation(case.get("validate", True)), warnings.catch_warnings():
        warnings.simplefilter("ignore")
        if case.get("warnings") == "error":
            warnings.simplefilter("error", RuntimeWarning)
        if case.get("should_raise"):
            ck._should_raise = True
        t0 = datetime.datetime.utcnow().replace(microsecond=0)
        if is_set:
            resp = make_response(case.get("resp"))
            before = list(resp.headerlist)
            if case.get("api") == "delete_cookie":
                r = catch(resp.delete_cookie, args[0], path=kw.get("path"), domain=kw.get("domain"))
            else:
                r = catch(resp.set_cookie, *args, **kw)
            if not isinstance(r, Err):
                added = resp.headerlist[len(before):]
                if resp.headerlist[:len(before)] != before or len(added) != 1 or added[0][0] != "Set-Cookie":
                    r = Err("set_cookie-did-not-append-exactly-one-Set-Cookie-header")
                else:
                    r = added[0][1]
        else:
            r = catch(ck.make_cookie, *args, **kw)
        t1 = datetime.datetime.utcnow()
        ck._should_raise = old_should_raise
    if isinstance(value, bytearray) and value != dec_value(case.get("value")):
        r = Err("caller-bytearray-mutated")
    return r, t0, t1


def latin(x):
    """bytes_(x): the octets webob will see for a path/domain/comment/samesite argument (None if it raises)."""
    if x is None or isinstance(x, bytes):
        return x
    try:
        return x.encode("latin-1")
    except UnicodeEncodeError:
        return Err("UnicodeEncodeError")


# =========================================================================== the property, executable
DELIMS = frozenset(b';, "\\') | frozenset(range(0, 33)) | frozenset(range(127, 256))


def spec_unescape(raw, quotable):
    """Reference decoder of one emitted value (NOT webob's): returns (octets, None) or (None, exposed octet).
    bare text: printable non-delimiters and \\ooo; inside "..." additionally SP."""
    inner, inq = raw, False
    if quotable and len(raw) >= 2 and raw[0] == 34 and raw[-1] == 34:
        inner, inq = raw[1:-1], True
    out = bytearray()
    i = 0
    while i < len(inner):
        c = inner[i]
        if c == 92:
            tri = inner[i + 1:i + 4]
            if len(tri) == 3 and tri[0] in b"0123" and tri[1] in b"01234567" and tri[2] in b"01234567":
                out.append(int(tri, 8))
                i += 4
                continue
            return None, c
        if c == 32 and inq:
            out.append(c)
        elif c in DELIMS:
            return None, c
        else:
            out.append(c)
        i += 1
    return bytes(out), None


def ref_split(line):
    """Reference Set-Cookie splitter (RFC 6265 5.2 shape): ';' separates, one SP follows each ';',
    first '=' separates key and value.  Returns (name, rawvalue, [(key, raw or None)]) or a complaint."""
    parts = line.split(";")
    if "=" not in parts[0]:
        return "first component has no '='"
    name, raw = parts[0].split("=", 1)
    attrs = []
    for p in parts[1:]:
        if not p.startswith(" ") or p.startswith("  ") or p == " ":
            return "component %r is not introduced by '; '" % p
        p = p[1:]
        if "=" in p:
            k, v = p.split("=", 1)
            attrs.append((k, v))
        else:
            attrs.append((p, None))
    return name, raw, attrs


def check_date(text, secs, t0, t1, deleting):
    if deleting:
        return None if text == DELETE_DATE else "delete cookie carries expires=%r" % text
    m = DATE_RX.match(text)
    if not m:
        return "expires=%r is not a cookie date" % text
    try:
        dt = datetime.datetime(int(m.group(4)), MONTHS.index(m.group(3)) + 1, int(m.group(2)), int(m.group(5)),
                               int(m.group(6)), int(m.group(7)))
    except ValueError:
        return "expires=%r is not a calendar date" % text
    if DAYS[dt.weekday()] != m.group(1):
        return "expires=%r has the wrong weekday" % text
    lo = t0 + datetime.timedelta(seconds=secs - 1)
    hi = t1 + datetime.timedelta(seconds=secs + 1)
    if not (lo <= dt <= hi):
        return "expires=%r is not now+%d s" % (text, secs)
    return None


def culprit(raw, quotable, got, want):
    """`got` (what webob's parser read) is a proper prefix of `want`: the raw octet at which reading stopped."""
    if not isinstance(got, bytes) or not isinstance(want, bytes) or not want.startswith(got) or len(got) >= len(want):
        return None
    raw = raw.encode("ascii") if isinstance(raw, str) else raw
    i = 0
    if quotable and len(raw) >= 2 and raw[0] == 34 and raw[-1] == 34:
        i = 1
    k = 0
    while i < len(raw) and k < len(got):
        i += 4 if raw[i] == 92 else 1
        k += 1
    return raw[i] if i < len(raw) else None


LAST = {"emitted": False}


def oracle(case):
    """None if the property holds on this case, else (key, message)."""
    LAST["emitted"] = False
    ck = C()
    name = "".join(chr(c) for c in case["name"])
    value = dec_value(case.get("value"))
    api = case.get("api", "make_cookie")
    if api == "delete_cookie":
        value = None
    validate = case.get("validate", True)
    called = case                                            # the call is made with what the case mentions only
    if case.get("defaults"):
        case = dict(case)
        if "path" not in case and api != "delete_cookie":
            case["path"] = {"bytes": "2f"}                   # the documented default path "/"
        if "value" not in case and api == "set_cookie":
            case["value"] = {"text": []}                     # the documented default value ""
            value = ""
    if isinstance(value, bytearray):
        value = bytes(value)
    line, t0, t1 = call_api(called)
    secure = bool(case.get("secure"))
    httponly = bool(case.get("httponly"))
    secs_arg = max_age_seconds(case.get("max_age"))

    # ---- what the statement demands of this request
    name_octets = None
    try:
        name_octets = name.encode("ascii")
    except UnicodeEncodeError:
        pass
    is_tok = bool(name_octets) and all(c in RFC_TOKEN for c in name_octets)
    refused_token = is_tok and (name.startswith("$") or name.lower() in RESERVED)   # stricter than asked: either way
    attrs_in = {k: latin(dec_attr(case.get(k))) for k in ("path", "domain", "comment", "samesite")}
    ss = attrs_in["samesite"]
    must_raise = None
    may_raise = False
    if not is_tok:
        must_raise = "name %r is not a token" % name
    elif isinstance(ss, bytes) and validate and ss.lower() not in (b"strict", b"lax", b"none"):
        must_raise = "SameSite=%r with validation on" % ss
    elif isinstance(ss, bytes) and not validate and not all(c in RFC_TOKEN for c in ss):
        # the flag only lifts the restriction to the three words; the value is copied verbatim, so anything but a
        # token could end the attribute and add attributes nobody requested
        must_raise = "SameSite-not-a-token %r with validation off" % ss
    elif isinstance(ss, bytes) and ss.lower() == b"none" and not secure:
        must_raise = "SameSite=None without Secure"
    elif secs_arg == BAD and value is not None:
        must_raise = "max_age=%r is not a number" % (case.get("max_age"),)
    if any(isinstance(v, Err) for v in attrs_in.values()):
        may_raise = True                     # not latin-1: nothing can be emitted
    if isinstance(value, str):
        try:
            vbytes = value.encode("utf-8")
            if api == "make_cookie" and any(ord(c) > 127 for c in value):
                may_raise = True             # make_cookie takes bytes or ASCII text; set_cookie is the text entry point
        except UnicodeEncodeError:
            vbytes = None
            may_raise = True                 # lone surrogates: no octets to emit
    else:
        vbytes = b"" if value is None else value
    if isinstance(secs_arg, list):
        may_raise = True                     # a spelling only int() understands ('1_0', ' 5 '): refused or taken, either way
        secs_arg = secs_arg[1]
    unrepresentable = False                  # now+max_age outside datetime's range (years 1..9999)
    if isinstance(secs_arg, int) and value is not None:
        try:
            datetime.datetime.utcnow() + datetime.timedelta(seconds=secs_arg)
        except OverflowError:
            unrepresentable = True
    if case.get("should_raise") or case.get("warnings") == "error":
        # the "future versions will raise" switch / warnings turned into errors: a value or comment that needs
        # quoting may be refused (ValueError / RuntimeWarning) instead of being quoted
        needs_quote = lambda b: isinstance(b, bytes) and any(c in DELIMS for c in b)   # noqa
        if needs_quote(value if isinstance(value, bytes) else (value or "").encode("utf-8", "replace")) or \
                needs_quote(attrs_in["comment"]):
            may_raise = True
    if isinstance(line, Err):
        if must_raise:
            return None
        if refused_token and line.name == "AssertionError":
            return (KEY_TOKEN_REFUSED, "%s: name %r is a token, but it is refused (AssertionError) because it starts with '$' or spells "
                    "an attribute name" % (api, name))
        if unrepresentable and line.name == "OverflowError":
            return (KEY_DATE_RANGE, "%s(max_age=%r) raises OverflowError: now+max_age is outside datetime's range, so no expires date "
                    "can be rendered and not even Max-Age is emitted" % (api, case.get("max_age")))
        if may_raise:
            return None
        return "spurious-raise:" + line.name, "%s(%r) raises %s although everything requested is legal" % (api, case, line.name)
    if must_raise:
        return ("emitted-instead-of-raising:" + must_raise.split(" ")[0].split("=")[0],
                "%s: %s, but %r was emitted" % (api, must_raise, line))
    if not isinstance(line, str):
        return "not-text", "result %r is not a str" % (line,)
    LAST["emitted"] = True

    # ---- printable ASCII only
    bad = [c for c in line if not (32 <= ord(c) <= 126)]
    if bad:
        return "not-printable-ascii:%02x" % min(ord(bad[0]), 255), "Set-Cookie line %r contains %r" % (line, bad[0])

    # ---- reference splitter: exactly one cookie, exactly the attributes requested
    sp = ref_split(line)
    if isinstance(sp, str):
        return "ref-split", "Set-Cookie line %r: %s" % (line, sp)
    rname, rraw, rattrs = sp
    if rname != name:
        return "name-changed", "cookie name %r emitted as %r in %r" % (name, rname, line)
    got, exposed = spec_unescape(rraw.encode("ascii"), True)
    if exposed is not None:
        return "delimiter-exposed:%02x" % exposed, "value %r emitted as %r: octet %#x outside an escaped form" % (vbytes, rraw, exposed)
    if got != vbytes:
        return "value-changed", "%s(%s): value %r (utf-8 octets %r) emitted as %r which denotes %r" % (
            api, "response configuration %r" % (case.get("resp"),) if api != "make_cookie" else "", value, vbytes, rraw, got)
    deleting = value is None
    secs = 0 if deleting else secs_arg
    want = {}
    for k, label in (("comment", "Comment"), ("domain", "Domain"), ("path", "Path")):
        if attrs_in[k]:
            want[label] = attrs_in[k]
    if secs is not None:
        want["Max-Age"] = str(secs).encode()
        want["expires"] = True
    if secure:
        want["secure"] = None
    if httponly:
        want["HttpOnly"] = None
    if ss:
        want["SameSite"] = ss
    seen = {}
    for k, raw in rattrs:
        if k in seen:
            return "attr-duplicated:" + k, "attribute %r appears twice in %r" % (k, line)
        seen[k] = raw
        if k not in want:
            return "attr-injected", "attribute %r was not requested but appears in %r (request %r)" % (k, line, case)
        w = want[k]
        if w is None:
            if raw is not None:
                return "flag-with-value:" + k, "flag %r carries a value in %r" % (k, line)
        elif k == "expires":
            msg = check_date(raw or "", secs, t0, t1, deleting)
            if msg:
                return "expires", "%s (line %r)" % (msg, line)
        elif k in ("Max-Age", "SameSite"):
            if raw is None or raw.encode("ascii") != w:
                return "attr-changed:" + k, "%s requested as %r but emitted as %r in %r" % (k, w, raw, line)
        else:
            if raw is None:
                return "attr-changed:" + k, "%s has no value in %r" % (k, line)
            got, exposed = spec_unescape(raw.encode("ascii"), k == "Comment")
            if exposed is not None:
                jar = ck.Cookie(line)
                return ("delimiter-exposed:%02x" % exposed,
                        "%s=%r emitted as %r: octet %#x outside an escaped form (webob's own Cookie(%r) then reads %s=%r and "
                        "holds cookies %r)" % (k, w, raw, exposed, line, k, (jar.get(name_octets) or {}).get(k.lower().encode()),
                                               sorted(jar.keys())))
            if got != w:
                return "attr-changed:" + k, "%s requested as %r, emitted as %r which denotes %r" % (k, w, raw, got)
    missing = [k for k in want if k not in seen]
    if missing:
        return "attr-missing:" + missing[0], "requested attribute %r is missing from %r" % (missing[0], line)

    # ---- webob's own reading of the line: exactly one cookie with the valued attributes
    jar = ck.Cookie(line)
    m = jar.get(name_octets)
    if m is None:
        if refused_token:
            return ("emitted-instead-of-raising:name", "%s: name %r is one webob's own parser refuses ('$' prefix / attribute "
                    "name), but %r was emitted and Cookie() reads back %r" % (api, name, line, list(jar.keys())))
        return "webob-parser-loses-cookie", "Cookie(%r) holds %r" % (line, list(jar.keys()))
    checks = [("value", rraw, True, m.value, vbytes)]
    for k, label in ((b"comment", "Comment"), (b"domain", "Domain"), (b"path", "Path"), (b"max-age", "Max-Age"),
                     (b"samesite", "SameSite")):
        checks.append((label, seen.get(label) or "", label == "Comment", m[k] or b"", want.get(label) or b""))
    for label, raw, quotable, g, w in checks:
        if g != w:
            d = culprit(raw, quotable, g, w)
            return ("raw-octet-not-reparsed:%02x" % d if d is not None else "webob-parser:" + label,
                    "Cookie(%r) reads %s as %r, not %r" % (line, label, g, w))
    if "expires" in want and m[b"expires"] != seen["expires"].encode("ascii"):
        return "webob-parser:expires", "Cookie(%r) reads expires as %r" % (line, m[b"expires"])
    if "expires" not in want and m[b"expires"]:
        return "webob-parser:expires", "Cookie(%r) reads expires as %r" % (line, m[b"expires"])
    if list(jar.keys()) != [name_octets]:
        return "webob-parser-sees-other-cookies", "Cookie(%r) holds %r" % (line, list(jar.keys()))
    if list(ck.parse_cookie(line)) != [(name_octets, vbytes)]:
        return "parse_cookie-on-set-cookie", "parse_cookie(%r) = %r" % (line, list(ck.parse_cookie(line)))

    # ---- the pair echoed by a client among other cookies is read back exactly
    pair = line.split(";")[0]
    msg = oracle_echo(pair, name, vbytes)
    if msg:
        return msg
    return None


KEY_NON_UTF8 = "request-cookies:non-utf8-value"
KEY_TOKEN_REFUSED = "token-name-refused:dollar-or-attribute-name"
KEY_DATE_RANGE = "max-age-beyond-datetime-range"
FINDING_KEYS = {KEY_NON_UTF8, KEY_TOKEN_REFUSED, KEY_DATE_RANGE}       # keys proposed for KNOWN_FINDINGS.txt: reported under the same key wherever they show up

OTHERS = [("a", b"1"), ("b", b"x y"), ("c", b"\xc3\xa9;"), ("z9", b"")]


def oracle_echo(pair, name, vbytes, contexts=None):
    """`pair` = name=quoted-value as emitted.  A client sends it back among other cookies."""
    from webob import Request
    ck = C()
    with warnings.catch_warnings():
        warnings.simplefilter("ignore")
        others = [(n, v, ck.make_cookie(n, v, path=None)) for n, v in OTHERS if n != name]
    if contexts is None:
        contexts = [(others[:1], others[1:2]), ([], []), (others[:3], []), ([], others[1:])]
    nb = name.encode("ascii")
    for left, right in contexts:
        seq = [(n.encode(), v, p) for n, v, p in left] + [(nb, vbytes, pair)] + [(n.encode(), v, p) for n, v, p in right]
        hdr = "; ".join(p for _, _, p in seq)
        want = [(n, v) for n, v, _ in seq]
        got = list(ck.parse_cookie(hdr))
        if got != want:
            mine = [v for n, v in got if n == nb]
            d = culprit(pair.split("=", 1)[1], True, mine[0], vbytes) if mine else None
            if d is not None:
                return ("raw-octet-not-reparsed:%02x" % d,
                        "parse_cookie(%r) reads %s as %r, not %r" % (hdr, name, mine[0], vbytes))
            return "echo-roundtrip", "parse_cookie(%r) = %r, expected %r" % (hdr, got, want)
        try:
            text = vbytes.decode("utf-8")
        except UnicodeDecodeError:
            text = None
        r = catch(lambda: list(Request({"HTTP_COOKIE": hdr}).cookies.items()))
        if text is None:
            # not UTF-8: the octets are exact at parse_cookie level (checked above); request.cookies would have to hand
            # them out losslessly (PEP 383 surrogateescape is the only str that denotes them) with the others intact
            wantd = {}
            for n, v in want:
                wantd[n.decode()] = v.decode("utf-8", "surrogateescape")
            if r == Err("UnicodeDecodeError"):
                return (KEY_NON_UTF8, "value %r emitted as %r: request.cookies on %r raises UnicodeDecodeError - for every cookie of "
                        "the header (parse_cookie reads the octets back exactly)" % (vbytes, pair, hdr))
            if r != list(wantd.items()):
                return "request-cookies-non-utf8", "request.cookies on %r gives %r" % (hdr, r)
            continue
        wantd = {}
        for n, v in want:
            wantd[n.decode()] = v.decode("utf-8")
        if r != list(wantd.items()):
            return "request-cookies", "request.cookies on %r = %r, expected %r" % (hdr, r, list(wantd.items()))
    return None


# =========================================================================== generators
ALLOWED_SAMPLE = b"abcXYZ019!#$%&'()*+-./:<=>?@[]^_`{|}~"
DELIM_SAMPLE = b';, \t\n\r"\\\x00\x1f\x7f\x80\xc3\xa9\xff='
TOKEN_NAMES = ["n", "sid", "a.b", "X-1", "!#$%&'*+-.^_`|~", "q", "A", "n0", "k_k", "tok~"]
BAD_NAMES = ["", "a b", "a;b", "a=b", "a,b", "a\"b", "\xe9", "n€", "a\tb", "a\x00", "[n]", "a/b", "a:b", "(n)", "n\n", "a\\b",
             "a@b", "a?b", "{n}", "<n>", "\x7f"]
REFUSED_TOKENS = ["$n", "$", "path", "Path", "DOMAIN", "max-age", "Expires", "secure", "HttpOnly", "SameSite", "comment"]
SAMESITE_OK = ["strict", "lax", "none", "Strict", "LAX", "None", "NONE"]
SAMESITE_BAD = ["", "foo", "strict ", "non", "lax;", "strictx", "nonE1"]
DELIM_ALPHA = [b";", b",", b" ", b"\t", b"\n", b'"', b"\\", b"=", b"a", b"\x00", b"\x7f", b"\xe9", b"[", b"]", b"/"]


def r_bytes(rng, maxlen=8):
    n = rng.choice([0, 1, 1, 2, 2, 3, 4, 5, maxlen])
    style = rng.random()
    out = bytearray()
    for _ in range(n):
        x = rng.random()
        if style < 0.3 or x < 0.5:
            out.append(rng.choice(ALLOWED_SAMPLE))
        elif x < 0.85:
            out.append(rng.choice(DELIM_SAMPLE))
        else:
            out.append(rng.randrange(256))
    return bytes(out)


def r_text(rng, maxlen=6):
    n = rng.randrange(0, maxlen + 1)
    out = []
    for _ in range(n):
        x = rng.random()
        if x < 0.35:
            out.append(chr(rng.choice(ALLOWED_SAMPLE)))
        elif x < 0.5:
            out.append(chr(rng.choice(DELIM_SAMPLE[:12])))
        elif x < 0.7:
            out.append(chr(rng.randrange(0x80, 0x800)))
        elif x < 0.85:
            c = rng.randrange(0x800, 0x10000)
            out.append(chr(c if not 0xD800 <= c <= 0xDFFF else 0x20AC))
        elif x < 0.97:
            out.append(chr(rng.randrange(0x10000, 0x110000)))
        else:
            out.append(chr(rng.randrange(0xD800, 0xE000)))
    return "".join(out)


def r_attr(rng):
    x = rng.random()
    if x < 0.3:
        return None
    if x < 0.4:
        return {"bytes": ""}
    if x < 0.6:
        return enc_value(rng.choice([b"/", b"/app", b"example.com", b".example.com", b"a comment", b"/a b", b"/x[1]"]))
    if x < 0.9:
        return enc_value(b"".join(rng.choice(DELIM_ALPHA) for _ in range(rng.randrange(1, 5))))
    return enc_value(r_bytes(rng))


def r_max_age(rng):
    x = rng.random()
    if x < 0.4:
        return None
    if x < 0.75:
        return rng.choice([0, 1, 5, 60, 3600, 86400, 31536000, -1, -86400, 10 ** 9, rng.randrange(-10 ** 6, 10 ** 7)])
    if x < 0.9:
        return ["td", rng.choice([0, 0, 1, 30, -1, 365]), rng.choice([0, 1, 59, 86399]), rng.choice([0, 0, 999999])]
    return rng.choice([["str", "0"], ["str", "5"], ["str", "3600"], ["str", "-1"], ["str", "+7"], ["str", "abc"], ["str", ""],
                       ["str", "5.5"], ["str", "1e3"], ["str", " 5 "], ["str", "1_0"], ["float", 5.0], ["float", 5.9],
                       ["float", -0.5], ["bool", True], ["bool", False]])


def r_case(rng, api=None, malformed=False):
    case = {"api": api or rng.choice(["make_cookie", "set_cookie"]), "validate": rng.random() < 0.75}
    x = rng.random()
    if malformed and x < 0.5:
        nm = rng.choice(BAD_NAMES + REFUSED_TOKENS)
    else:
        nm = rng.choice(TOKEN_NAMES)
    case["name"] = [ord(c) for c in nm]
    y = rng.random()
    if y < 0.08:
        case["value"] = None
    elif y < 0.6:
        case["value"] = enc_value(r_bytes(rng))
        if rng.random() < 0.1:
            case["value"] = {"bytearray": case["value"]["bytes"]}
    else:
        t = r_text(rng)
        if case["api"] == "make_cookie" and rng.random() < 0.7:
            t = "".join(c for c in t if ord(c) < 128)
        case["value"] = enc_value(t)
    if case["api"] == "set_cookie" and rng.random() < 0.5:
        case["resp"] = rng.choice(RESP_CONFIGS)
        case["name_bytes"] = rng.random() < 0.3
    case["max_age"] = r_max_age(rng)
    case["path"] = enc_value(b"/") if rng.random() < 0.3 else r_attr(rng)
    case["domain"] = r_attr(rng) if rng.random() < 0.5 else None
    case["comment"] = r_attr(rng) if rng.random() < 0.5 else None
    truthy = [True, True, True, 1, "yes", [0], 2.5]
    falsy = [False, False, False, 0, "", [], None]
    case["secure"] = rng.choice(truthy if rng.random() < 0.5 else falsy)
    case["httponly"] = rng.choice(truthy if rng.random() < 0.5 else falsy)
    if rng.random() < 0.15:
        case["positional"] = True
    if rng.random() < 0.15:
        case["defaults"] = True
        for k in ("path", "domain", "comment", "samesite", "max_age"):
            if rng.random() < 0.5:
                case.pop(k, None)
    z = rng.random()
    if z < 0.4:
        case["samesite"] = None
    elif z < 0.8 or not malformed:
        case["samesite"] = enc_value(rng.choice(SAMESITE_OK).encode())
    else:
        case["samesite"] = enc_value(rng.choice(SAMESITE_BAD + ["future"]).encode("latin-1", "replace"))
    if not case["validate"] and rng.random() < 0.4:
        case["samesite"] = enc_value(rng.choice([b"future", b"Relaxed", b"", b"x; Domain=evil.example", b"a b", b"x,y", b"Lax;", b"\xe9",
                                                  b"q\"", b"Lax\r\nSet-Cookie: z=1", b"a=b"]))
    if rng.random() < 0.15:       # arguments given as str instead of bytes
        for k in ("path", "domain", "comment", "samesite"):
            v = case.get(k)
            if v and "bytes" in v:
                case[k] = {"text": list(bytes.fromhex(v["bytes"]))}
    return case


def r_header(rng):
    """Cookie / Set-Cookie style header text for the input side: mostly well formed, with noise."""
    ck = C()
    parts = []
    for _ in range(rng.randrange(0, 5)):
        x = rng.random()
        nm = rng.choice(TOKEN_NAMES + ["Path", "expires", "$v", "Domain", "a b", "[k]", "k=", "max-age", "SameSite"])
        if x < 0.45:
            with warnings.catch_warnings():
                warnings.simplefilter("ignore")
                val = ck._value_quote(r_bytes(rng)).decode("latin-1")
        elif x < 0.55:
            val = rng.choice([DELETE_DATE, "Sun, 12-Jun-2011 23:16:01 GMT", "Sun, 12-Jun-11 23:16:01 GMT", "Sun, 1234567890123 23:16:01 GMT",
                              "Sun, 12-Jun-2011 23:16:01 GMX", "Sunday, 12-Jun-2011 23:16:01 GMT", "Sun,\t12-Jun-2011\n23:16:01\rGMT"])
        elif x < 0.8:
            val = "".join(rng.choice(['"', "\\", "\\\"", "a", " ", ";", "\n", "\\0", "\\04", "\\101", "\\477", "\\18", "=", "[", "\xe9", ",", "\\\\", "\\\n",
                                      "b", "\t", "\\377"]) for _ in range(rng.randrange(0, 7)))
        else:
            val = r_bytes(rng).decode("latin-1")
        eq = rng.choice(["=", "=", "=", " = ", "=\t", " =", "", "=="])
        parts.append(nm + eq + val)
        if rng.random() < 0.15:
            parts.append(rng.choice(["secure", "HttpOnly", "", " ", "x"]))
    return rng.choice(["; ", "; ", ";", ", ", " "]).join(parts)


def jar_obs(hdr):
    """Cookie(header) as a canonical value: [[name, value, [[attr, v] ... in sorted(_c_keys) order]] ...]"""
    ck = C()
    jar = ck.Cookie(hdr)
    keys = sorted(ck._c_keys)
    return [[k, m.value, [[a, m[a]] for a in keys if m[a] is not None]] for k, m in jar.items()]


# =========================================================================== Coq literals
def c_optstr(v):
    x = latin(dec_attr(v))
    return copt(None if x is None else cstr(x))


def c_request(case, date):
    if case.get("defaults"):
        case = dict(case)
        case.setdefault("path", {"bytes": "2f"})
        if "value" not in case:
            case["value"] = {"text": []}
    v = case.get("value")
    if v is None:
        cv = "CNone"
    elif "bytearray" in v:
        cv = "(CBytes %s)" % cstr(bytes.fromhex(v["bytearray"]))
    elif "bytes" in v:
        cv = "(CBytes %s)" % cstr(bytes.fromhex(v["bytes"]))
    else:
        cv = "(CText %s)" % cstr("".join(chr(c) for c in v["text"]))
    m = case.get("max_age")
    if m is None:
        cm = "MaNone"
    elif isinstance(m, int):
        cm = "(MaInt %s)" % cZ(int(m))
    elif m[0] == "td":
        td = dec_max_age(m)
        cm = "(MaDelta %s %s)" % (cZ(td.days), cZ(td.seconds))
    else:                      # str / float / bool: what int() makes of it (CPython's int() is not modelled)
        try:
            cm = "(MaInt %s)" % cZ(int(dec_max_age(m)))
        except ValueError:
            cm = "MaBad"
    return ("{| r_name := %s; r_value := %s; r_max_age := %s; r_path := %s; r_domain := %s; r_secure := %s; "
            "r_httponly := %s; r_comment := %s; r_samesite := %s; r_date := %s |}" % (
                cstr("".join(chr(c) for c in case["name"])), cv, cm, c_optstr(case.get("path")), c_optstr(case.get("domain")),
                cbool(bool(case.get("secure"))), cbool(bool(case.get("httponly"))), c_optstr(case.get("comment")),
                c_optstr(case.get("samesite")), cstr(date)))


def split_date(line):
    """The rendered date inside a Set-Cookie line (abstract input of the model)."""
    m = re.search(r"; expires=([^;]*)", line)
    return m.group(1) if m else ""


# =========================================================================== the check
OPT_CODE = ("import json,sys,warnings; warnings.simplefilter('ignore'); from harness.props import c07; "
            "cases=json.load(sys.stdin); out=[]\n"
            "for i,c in enumerate(cases):\n"
            "    r=c07.oracle_any(dict(c, optimize=False))\n"
            "    if r: out.append([i, r[0], r[1]])\n"
            "json.dump(out, sys.stdout)")


def run_under_optimize(cases):
    """Evaluate the oracle on `cases` in an interpreter started with -O (assert statements are compiled away there: a
    check written as an assert is a configuration-dependent check).  Returns [(index, key, message)]."""
    import subprocess
    import sys
    p = subprocess.run([sys.executable, "-O", "-B", "-c", OPT_CODE], input=json.dumps(fw.jsonable(cases)), capture_output=True,
                       text=True, cwd=fw.ROOT)
    if p.returncode != 0:
        return [(0, "python-O:harness-error", (p.stderr or p.stdout)[-400:])]
    return [(i, k if k in FINDING_KEYS else "python-O:" + k, "under python -O: " + m) for i, k, m in json.loads(p.stdout)]


def oracle_any(case):
    import sys
    if case.get("optimize") and not sys.flags.optimize:
        res = run_under_optimize([case])
        return (res[0][1], res[0][2]) if res else None
    if case.get("kind") == "cookie-date":
        return oracle_date(case)
    return oracle_history(case) if "kind" in case else oracle(case)


CONFIRMED = {}     # key -> [reproduces in a fresh process?, attempts]


def reproduces_fresh(case):
    """Does the case fail in a brand-new interpreter too (what --replay will do)?"""
    import subprocess
    import sys
    code = ("import json,sys,warnings; warnings.simplefilter('ignore'); from harness.props import c07; "
            "sys.exit(1 if c07.oracle_any(json.loads(sys.stdin.read())) else 0)")
    p = subprocess.run([sys.executable, "-B", "-c", code], input=json.dumps(fw.jsonable(case)), capture_output=True, text=True,
                       cwd=fw.ROOT)
    return p.returncode == 1


def fail_case(ctx, res, case, source):
    """Report a failing case; the first failing cases of every key are re-run in a fresh process, so that a failure
    that only shows after earlier calls in THIS process (leaked module/object state) is not reported with a replay
    that cannot reproduce it - the history oracles report those with the history as the replay."""
    key = res[0]
    st = CONFIRMED.setdefault(key, [False, 0])
    if not st[0] and st[1] < 4:
        st[1] += 1
        st[0] = reproduces_fresh(case)
    if st[0]:
        ctx.fail(key, res[1], case, True, source)
    else:
        ctx.fail("state-dependent:" + key, "fails only after earlier calls in the same process (a fresh process passes it; see the "
                 "history violations): " + res[1], case, False, source)


def report(ctx, case, res, source):
    if res:
        fail_case(ctx, res, case, source)


def corr_simple(ctx, name, fn, in_type, inputs, impl, lit, prop_oracle=None):
    cases = []
    for x in inputs:
        with warnings.catch_warnings():
            warnings.simplefilter("ignore")
            out = catch(impl, x)
        cases.append((lit(x), out, {"fn": name, "input": fw.jsonable(x)}))
    bad = ctx.corr(name, IMPORTS, fn, cases, in_type=in_type)
    for i in bad[:5]:
        pc = prop_oracle(inputs[i]) if prop_oracle else None     # the public-API case that exercises this input
        res = oracle(pc) if pc else None
        if res:
            fail_case(ctx, res, pc, "corr")
        else:
            ctx.broken.append("correspondence %s: model and implementation disagree on %s (implementation gives %r)"
                              % (name, json.dumps(cases[i][2]), cases[i][1]))
    return bad


def value_case(v, api="make_cookie"):
    return {"api": api, "name": [110], "value": enc_value(v), "path": None, "validate": True}


def attr_case(attr, v):
    return {"api": "make_cookie", "name": [110], "value": enc_value(b"v"), "path": None, attr: enc_value(v), "validate": True}


# every implementation object coq/Model/C07_CookieCodec.v mirrors by hand
MODELLED = [
    "webob.cookies:_value_quote", "webob.cookies:_path_quote", "webob.cookies:_valid_cookie_name",
    "webob.cookies:serialize_max_age", "webob.cookies:serialize_samesite", "webob.cookies:cookie_property",
    "webob.cookies:Morsel.__init__", "webob.cookies:Morsel.__setitem__", "webob.cookies:Morsel.serialize",
    "webob.cookies:make_cookie", "webob.response:Response.set_cookie",
    "webob.cookies:_rx_cookie", "webob.cookies:_rx_unquote", "webob.cookies:_unquote", "webob.cookies:_ch_unquote",
    "webob.cookies:_parse_cookie", "webob.cookies:parse_cookie", "webob.cookies:Cookie.load", "webob.cookies:Cookie.add",
    "webob.cookies:RequestCookies._cache", "webob.util:bytes_", "webob.util:text_",
    "webob.cookies:serialize_cookie_date",          # Model/C07_CookieDate.v
]
# objects gen() reads / translates into coq/Gen/C07_tables.v on every run
REGENERATED = [
    "webob.cookies:_allowed_cookie_bytes", "webob.cookies:_valid_token_bytes", "webob.cookies:_escape_map",
    "webob.cookies:_path_quote", "webob.cookies:_rx_cookie", "webob.cookies:_rx_unquote", "webob.cookies:_ch_unquote_map",
    "webob.cookies:_c_keys", "webob.cookies:_c_valkeys", "webob.cookies:_c_renames", "webob.cookies:serialize_samesite",
    "webob.cookies:weekdays", "webob.cookies:months",          # coq/Gen/C07_dates.v
]
# exercised by the oracle only (no Gallina counterpart)
ORACLE_ONLY = [
    "webob.cookies:__warn_or_raise",
    "webob.cookies:Cookie.serialize", "webob.cookies:Cookie.values", "webob.cookies:RequestCookies.items",
    "webob.cookies:RequestCookies.keys", "webob.cookies:RequestCookies.get", "webob.cookies:RequestCookies.__contains__",
    "webob.cookies:RequestCookies.__len__", "webob.request:BaseRequest.cookies", "webob.response:Response.headerlist",
    "webob.response:Response.delete_cookie", "webob.response:Response.charset",
]


# =========================================================================== the expires date: model vs serialize_cookie_date
DATE_IMPORTS = IMPORTS + ["Webob.Gen.C07_dates", "Webob.Model.C07_CookieDate"]
TS_MIN, TS_MAX = -62135596800, 253402300799
DATE_LOOSE_RX = re.compile(r"^(Mon|Tue|Wed|Thu|Fri|Sat|Sun), (\d\d)-(Jan|Feb|Mar|Apr|May|Jun|Jul|Aug|Sep|Oct|Nov|Dec)-(\d+) "
                           r"(\d\d):(\d\d):(\d\d) GMT$")


class FixedClock:
    """datetime.utcnow() as seen by webob.cookies reads `now` (whole seconds since the epoch) for the duration of a call."""

    def __init__(self, now):
        self.now = now

    def __enter__(self):
        import datetime as dtm
        ck = C()
        self.saved = ck.datetime
        fixed = dtm.datetime(1970, 1, 1) + dtm.timedelta(seconds=self.now)

        class _Clock(dtm.datetime):
            @classmethod
            def utcnow(cls):
                return fixed
        ck.datetime = _Clock
        return self

    def __exit__(self, *a):
        C().datetime = self.saved


def _expires_of(line):
    if not isinstance(line, str):
        return line
    if "expires=" not in line:
        return None
    return line.split("expires=", 1)[1].split(";", 1)[0]


def date_call(case):
    """The real rendering a cookie-date case asks for: text of the expires date, None, or Err(class)."""
    import datetime as dtm
    import time as _time
    ck = C()
    via = case["via"]

    def txt(r):
        return r.decode("latin-1") if isinstance(r, bytes) else r
    if via in ("tuple", "datetime", "date", "gmtime", "morsel-datetime"):
        w, d, m, y, hh, mi, ss = case["fields"]
        if via == "tuple":
            return txt(catch(ck.serialize_cookie_date, (y, m, d, hh, mi, ss, w, 1, 0)))
        if via == "datetime":
            return txt(catch(ck.serialize_cookie_date, dtm.datetime(y, m, d, hh, mi, ss)))
        if via == "date":
            return txt(catch(ck.serialize_cookie_date, dtm.date(y, m, d)))
        if via == "gmtime":
            return txt(catch(ck.serialize_cookie_date, _time.gmtime(case["t"])))
        mo = ck.Morsel(b"n", b"v")
        mo.expires = dtm.datetime(y, m, d, hh, mi, ss)
        return _expires_of(catch(mo.serialize))
    t, now = case["t"], case["now"]
    v = t - now
    with FixedClock(now):
        if via == "int":
            return txt(catch(ck.serialize_cookie_date, v))
        if via == "timedelta":
            return txt(catch(lambda: ck.serialize_cookie_date(dtm.timedelta(seconds=v))))
        if via == "make_cookie-int":
            return _expires_of(catch(ck.make_cookie, "n", "v", max_age=v, path=None))
        if via == "make_cookie-timedelta":
            return _expires_of(catch(lambda: ck.make_cookie("n", "v", max_age=dtm.timedelta(seconds=v), path=None)))
        if via == "set_cookie":
            from webob import Response

            def call():
                resp = Response()
                resp.set_cookie("n", "v", max_age=v, path=None)
                return resp.headers.getall("Set-Cookie")[-1]
            return _expires_of(catch(call))
    raise ValueError("unknown cookie-date case %r" % (via,))


def date_fields_of(case):
    """The (weekday, day, month, year, h, m, s) the case asks for, by Python's own calendar (no webob code)."""
    import datetime as dtm
    if "fields" in case:
        return tuple(case["fields"])
    if not TS_MIN <= case["t"] <= TS_MAX:
        return None
    x = dtm.datetime(1970, 1, 1) + dtm.timedelta(seconds=case["t"])
    return (x.weekday(), x.day, x.month, x.year, x.hour, x.minute, x.second)


def oracle_date(case):
    """The statement on the expires attribute alone: printable, no delimiter exposed, denotes the requested instant,
    and webob's own Cookie reads it back in full.  None if it holds."""
    got = date_call(case)
    f = date_fields_of(case)
    proper = f is not None and f[0] < 7 and 1 <= f[1] <= 31 and 1 <= f[2] <= 12 and 1 <= f[3] <= 9999 and f[4] < 24 \
        and f[5] < 60 and f[6] <= 61
    if not proper:
        return None                                   # outside what Python produces itself: nothing is claimed
    if isinstance(got, Err):
        return ("expires-date:spurious-raise:" + got.name, "rendering the expires date of %r raises %s" % (case, got.name))
    if got is None:
        return ("expires-date:missing", "no expires attribute for %r" % (case,))
    if any(not (32 <= ord(c) <= 126) or c in ';"\\' for c in got):
        return ("expires-date:delimiter-exposed", "the expires date %r exposes a delimiter / non-printable character" % got)
    mt = DATE_LOOSE_RX.match(got)
    if not mt:
        return ("expires-date:shape", "the expires date %r is not 'Www, dd-Mmm-yyyy hh:mm:ss GMT'" % got)
    back = (DAYS.index(mt.group(1)), int(mt.group(2)), MONTHS.index(mt.group(3)) + 1, int(mt.group(4)), int(mt.group(5)),
            int(mt.group(6)), int(mt.group(7)))
    if back != tuple(f):
        return ("expires-date:wrong-instant", "the expires date %r does not denote the requested %r" % (got, f))
    ck = C()
    jar = ck.Cookie("n=v; expires=" + got)
    seen = [mo.expires for mo in jar.values()]
    if len(seen) != 1 or seen[0] != got.encode("ascii"):
        return ("expires-date:not-read-back", "webob's own Cookie() reads the expires attribute %r back as %r (case %s)"
                % (got, seen, json.dumps(case)))
    return None


def run_date_corr(ctx):
    """Model/C07_CookieDate.v against the real serialize_cookie_date / make_cookie / Response.set_cookie."""
    import datetime as dtm
    if not getattr(ctx, "build_ok", False):
        return
    rng = ctx.sub_rng("date-corr")
    n = ctx.scale(260, 2500)
    fcases = []

    def add_fields(via, f, **kw):
        c = {"kind": "cookie-date", "via": via, "fields": list(f)}
        c.update(kw)
        fcases.append(c)
    # raw time tuples: every weekday x month, boundary years, leap seconds, out-of-range fields
    for w in range(7):
        for m in range(1, 13):
            add_fields("tuple", (w, rng.randrange(1, 32), m, rng.choice([1, 9, 10, 99, 100, 999, 1000, 1970, 1999, 2000, 2026, 9999]),
                                 rng.randrange(24), rng.randrange(60), rng.randrange(62)))
    for y in (0, 1, 5, 9, 10, 11, 99, 100, 999, 1000, 1969, 1970, 1999, 2000, 2038, 9999, 10000, 12345):
        add_fields("tuple", (rng.randrange(7), 1, 1, y, 0, 0, 0))
        add_fields("tuple", (rng.randrange(7), 31, 12, y, 23, 59, 59))
    for f in [(0, 1, 1, 2024, 0, 0, 60), (0, 1, 1, 2024, 0, 0, 61), (0, 1, 1, 2024, 0, 0, 62), (0, 1, 0, 2024, 1, 2, 3),
              (0, 1, 13, 2024, 1, 2, 3), (0, 0, 1, 2024, 1, 2, 3), (0, 32, 1, 2024, 1, 2, 3), (0, 1, 1, 2024, 24, 2, 3),
              (0, 1, 1, 2024, 1, 60, 3), (7, 1, 1, 2024, 1, 2, 3), (8, 1, 13, 2024, 1, 2, 3), (6, 31, 12, 2024, 23, 59, 61),
              (9, 0, 0, 0, 0, 0, 0), (0, 0, 0, 0, 0, 0, 0), (6, 29, 2, 2024, 12, 0, 0), (3, 100, 1, 2024, 1, 2, 3)]:
        add_fields("tuple", f)
    for _ in range(n // 4):
        add_fields("tuple", (rng.randrange(7), rng.randrange(1, 32), rng.randrange(1, 13), rng.randrange(0, 10000),
                             rng.randrange(24), rng.randrange(60), rng.randrange(62)))
    # datetime / date / gmtime / Morsel.expires = datetime: the weekday is Python's own
    stamps = [dtm.datetime(1, 1, 1), dtm.datetime(1, 12, 31, 23, 59, 59), dtm.datetime(9, 12, 31, 23, 59, 59), dtm.datetime(10, 1, 1),
              dtm.datetime(99, 12, 31, 23, 59, 59), dtm.datetime(100, 1, 1), dtm.datetime(999, 12, 31, 23, 59, 59),
              dtm.datetime(1000, 1, 1), dtm.datetime(1969, 12, 31, 23, 59, 59), dtm.datetime(1970, 1, 1),
              dtm.datetime(1999, 12, 31, 23, 59, 59), dtm.datetime(2000, 1, 1), dtm.datetime(2000, 2, 29, 12, 0, 0),
              dtm.datetime(1900, 2, 28, 23, 59, 59), dtm.datetime(1900, 3, 1), dtm.datetime(2024, 2, 29, 23, 59, 59),
              dtm.datetime(2024, 3, 1), dtm.datetime(2100, 2, 28, 23, 59, 59), dtm.datetime(2100, 3, 1),
              dtm.datetime(2038, 1, 19, 3, 14, 8), dtm.datetime(9999, 1, 1), dtm.datetime(9999, 12, 31, 23, 59, 59),
              dtm.datetime(4, 2, 29), dtm.datetime(400, 2, 29), dtm.datetime(9996, 2, 29)]
    stamps += [dtm.datetime(2026, 10, 1) + dtm.timedelta(days=k) for k in range(7)]
    stamps += [dtm.datetime(2025, m, 15, 6, 7, 8) for m in range(1, 13)]
    for _ in range(n // 2):
        stamps.append(dtm.datetime(1, 1, 1) + dtm.timedelta(seconds=rng.randrange(0, TS_MAX - TS_MIN + 1)))
    for _ in range(n // 4):
        stamps.append(dtm.datetime(rng.choice([1, 2, 9, 10, 99, 100, 1999, 2000, 2023, 2024, 9999]), rng.randrange(1, 13),
                                   rng.randrange(1, 29), rng.randrange(24), rng.randrange(60), rng.randrange(60)))
    epoch = dtm.datetime(1970, 1, 1)
    for i, x in enumerate(stamps):
        via = ("datetime", "morsel-datetime", "date", "gmtime", "datetime")[i % 5]
        if via == "date":
            x = dtm.datetime(x.year, x.month, x.day)
        f = (x.weekday(), x.day, x.month, x.year, x.hour, x.minute, x.second)
        if via == "gmtime":
            add_fields(via, f, t=int((x - epoch).total_seconds()))
        else:
            add_fields(via, f)
    cases = []
    for c in fcases:
        out = date_call(c)
        cases.append(("(%s)" % ", ".join("%d%%N" % k for k in c["fields"]), out, c))
    bad = ctx.corr("cookie_date_fields", DATE_IMPORTS, "cd_fields_val", cases, in_type="(N * N * N * N * N * N * N)")
    date_disagreements(ctx, "cookie_date_fields", fcases, cases, bad)

    # the instant utcnow()+max_age through the int / timedelta paths, make_cookie and Response.set_cookie (fixed clock)
    tcases = []
    now0 = 1790000000 + rng.randrange(0, 10 ** 7)
    ts = [TS_MIN - 1, TS_MIN, TS_MIN + 1, TS_MIN + 86399, TS_MIN + 86400, -59011459201, -59011459200, -1, 0, 1, 86399, 86400,
          946684799, 946684800, 951782400, 951868799, 2147483647, 2147483648, 4107542399, 4107542400, TS_MAX - 86400,
          TS_MAX - 1, TS_MAX, TS_MAX + 1, TS_MAX + 86400, now0, now0 + 1, now0 - 1, now0 + 86400, now0 + 31536000]
    ts += [int((dtm.datetime(y, 12, 31, 23, 59, 59) - epoch).total_seconds()) + k
           for y in (1, 9, 99, 999, 1899, 1999, 2023, 2024, 2099, 2399, 9998) for k in (0, 1)]
    ts += [int((dtm.datetime(y, 2, 28, 23, 59, 59) - epoch).total_seconds()) + k
           for y in (4, 100, 1900, 2000, 2024, 2025, 2100, 2400) for k in (0, 1, 86400, 86401)]
    ts += [now0 + rng.randrange(-10 ** 6, 10 ** 8) for _ in range(n // 4)]
    ts += [rng.randrange(TS_MIN - 10 ** 6, TS_MAX + 10 ** 6) for _ in range(n // 2)]
    ts += [int((dtm.datetime(2026, 1, 1) - epoch).total_seconds()) + 86400 * k + rng.randrange(86400) for k in range(0, 365, 9)]
    vias = ("int", "timedelta", "make_cookie-int", "make_cookie-timedelta", "set_cookie")
    for i, t in enumerate(ts):
        tcases.append({"kind": "cookie-date", "via": vias[i % 5], "t": t, "now": now0})
    cases = [(cZ(c["t"]), date_call(c), c) for c in tcases]
    bad = ctx.corr("cookie_date_instant", DATE_IMPORTS, "cd_of_ts_val", cases, in_type="Z")
    date_disagreements(ctx, "cookie_date_instant", tcases, cases, bad)
    ctx.extra["date_cases"] = {"fields": len(fcases), "instants": len(tcases)}
    # the statement itself on every one of these dates (small years included): printable, no delimiter, denotes the
    # requested instant, and webob's own Cookie() reads the expires attribute back whole
    nontrivial = 0
    for c in fcases + tcases:
        res = oracle_date(c)
        f = date_fields_of(c)
        if f is not None and 1 <= f[3] <= 9999:
            nontrivial += 1
        if res:
            ctx.fail(res[0], res[1], c, True, "expires-dates")
    ctx.oracle_count("expires-dates", len(fcases) + len(tcases), nontrivial)


def date_disagreements(ctx, name, dcases, cases, bad):
    shown = 0
    for i in bad:
        if shown >= 5:
            break
        if oracle_date(dcases[i]) is None:        # failures of the statement are reported by the expires-dates sweep
            shown += 1
            ctx.broken.append("correspondence %s: model and implementation disagree on %s (implementation gives %r)"
                              % (name, json.dumps(dcases[i]), cases[i][1]))


def run(ctx):
    warnings.simplefilter("ignore")
    ctx.modelled(MODELLED)
    ctx.extra["regenerated_from_source"] = REGENERATED
    ctx.extra["oracle_only"] = ORACLE_ONLY
    problems = gen(ctx)
    for p in problems:
        ctx.broken.append(p)
    ctx.build(["Props/C07.vo"])
    ck = C()
    n = ctx.scale(500, 6000)

    # ------------------------------------------------------------------ correspondence
    rng = ctx.sub_rng("corr")
    singles = [bytes([i]) for i in range(256)]
    vals = singles + [r_bytes(rng) for _ in range(n)]
    corr_simple(ctx, "value_quote", "(fun v => VStr (value_quote v))", "str", vals, ck._value_quote, cstr, value_case)
    corr_simple(ctx, "path_quote", "(fun v => VStr (path_quote v))", "str", vals, ck._path_quote, cstr,
                lambda v: attr_case("path", v))
    quoted = []
    for v in vals[:n // 2 + 256]:
        quoted.append(ck._value_quote(v))
        quoted.append(ck._path_quote(v))
    noise = [r_header(rng).encode("latin-1") for _ in range(n // 2)]
    noise += [b"".join(rng.choice([b'"', b"\\", b"0", b"3", b"7", b"8", b"4", b"a", b"\n", b" ", b"\\1", b"\\37"])
                       for _ in range(rng.randrange(0, 8))) for _ in range(n)]
    corr_simple(ctx, "unquote", "(fun v => VStr (unquote v))", "str", quoted + noise, ck._unquote, cstr)
    names = [nm.encode("latin-1", "replace") for nm in TOKEN_NAMES + BAD_NAMES + REFUSED_TOKENS] + singles + \
            [bytes(rng.choice(b"aZ0!#$%&'*+-.^_`|~ ;=,\"[]()/:@$\x7f\x80\xe9") for _ in range(rng.randrange(0, 5))) for _ in range(n // 2)]
    corr_simple(ctx, "valid_cookie_name", "(fun k => res_val VBool (valid_cookie_name_res k))", "str", names,
                ck._valid_cookie_name, cstr)
    ints = [0, 1, -1, 9, 10, 11, 99, 100, 101, -10, 10 ** 9, -10 ** 9, 2 ** 31, 2 ** 64, 86399, 86400] + \
           [rng.randrange(-10 ** 12, 10 ** 12) for _ in range(200)] + list(range(-50, 130))
    corr_simple(ctx, "serialize_max_age", "(fun z => VStr (z_to_str z))", "Z", ints, ck.serialize_max_age, cZ)

    hdrs = [r_header(rng) for _ in range(n)]
    with warnings.catch_warnings():
        warnings.simplefilter("ignore")
        for _ in range(n // 2):
            c = r_case(rng, api="make_cookie")
            r, _, _ = call_api(c)
            if isinstance(r, str):
                hdrs.append(r)
                hdrs.append(rng.choice(["a=1; ", ""]) + r.split(";")[0] + rng.choice(["", "; b=2", ";b=2", " ;b = 2"]))
    hb = [h.encode("latin-1") for h in hdrs]
    corr_simple(ctx, "findall", "(fun s => pairs_val (findall s))", "str", hb,
                lambda b: [list(kv) for kv in ck._rx_cookie.findall(b)], cstr)
    corr_simple(ctx, "parse_cookie", "(fun s => pairs_val (parse_cookie s))", "str", hb,
                lambda b: [list(kv) for kv in ck.parse_cookie(b.decode("latin-1"))], cstr)
    corr_simple(ctx, "cookie_load", "(fun s => cookie_val (cookie_load s))", "str", hb,
                lambda b: jar_obs(b.decode("latin-1")), cstr)

    # ONE Cookie() loaded twice = the model's loop continued on the same dict
    def impl_load2(pq):
        jar = ck.Cookie()
        jar.load(pq[0].decode("latin-1"))
        jar.load(pq[1].decode("latin-1"))
        keys = sorted(ck._c_keys)
        return [[k, m.value, [[a, m[a]] for a in keys if m[a] is not None]] for k, m in jar.items()]
    twice = [(hb[rng.randrange(len(hb))], hb[rng.randrange(len(hb))]) for _ in range(n // 2)]
    corr_simple(ctx, "cookie_load_twice",
                "(fun p => cookie_val (load_go (parse_cookie_raw (snd p)) None (cookie_load (fst p))))", "(str * str)", twice,
                impl_load2, lambda pq: cpair(cstr(pq[0]), cstr(pq[1])))

    def impl_req(b):
        from webob import Request
        return [list(kv) for kv in Request({"HTTP_COOKIE": b.decode("latin-1")}).cookies.items()]
    corr_simple(ctx, "request_cookies", "(fun s => res_val text_pairs_val (request_cookies s))", "str", hb, impl_req, cstr)

    texts = [r_text(rng, 5) for _ in range(n)] + [chr(c) for c in (0, 0x7f, 0x80, 0x7ff, 0x800, 0xd7ff, 0xd800, 0xdfff, 0xe000, 0xffff,
                                                                     0x10000, 0x10ffff)]
    corr_simple(ctx, "utf8_encode", "(fun t => match utf8_encode t with Some b => VStr b | None => VErr UnicodeEncodeError end)",
                "(list N)", texts, lambda t: t.encode("utf-8"), cstr)
    bs = [t.encode("utf-8", "surrogatepass") for t in texts] + [r_bytes(rng, 6) for _ in range(n)] + \
         [bytes(x) for x in ([0xc0, 0x80], [0xc1, 0xbf], [0xe0, 0x80, 0x80], [0xe0, 0x9f, 0xbf], [0xed, 0xa0, 0x80], [0xf0, 0x8f, 0xbf, 0xbf],
                             [0xf4, 0x90, 0x80, 0x80], [0xf5, 0x80, 0x80, 0x80], [0xc3], [0xe2, 0x82], [0xf0, 0x9f, 0x98], [0x80], [0xff])]
    corr_simple(ctx, "utf8_decode", "(fun b => match utf8_decode b with Some t => VStr t | None => VErr UnicodeDecodeError end)",
                "str", bs, lambda b: b.decode("utf-8"), cstr)

    # make_cookie / set_cookie: the model gets the rendered date as its abstract input
    dates = set()
    for api, fn in (("make_cookie", "make_cookie"), ("set_cookie", "set_cookie")):
        cases = []
        jcases = []
        for i in range(n):
            c = r_case(rng, api=api, malformed=(i % 3 == 0))
            if any(isinstance(latin(dec_attr(c.get(k))), Err) for k in ("path", "domain", "comment", "samesite")):
                continue
            if c.get("name_bytes") and any(x > 127 for x in c["name"]):
                continue      # a bytes name with high octets: the model's name is a str (oracle only: it must raise)
            r, _, _ = call_api(c)
            date = split_date(r) if isinstance(r, str) else ""
            if date:
                dates.add(date)
            cases.append((cpair(cbool(c["validate"]), c_request(c, date)), r, c))
            jcases.append(c)
        bad = ctx.corr(api, IMPORTS, "(fun c => res_val VStr (%s (fst c) (snd c)))" % fn, cases, in_type="(bool * request)")
        for i in bad[:5]:
            res = oracle(jcases[i])
            if res:
                fail_case(ctx, res, jcases[i], "corr")
            else:
                ctx.broken.append("correspondence %s: model and implementation disagree on %s (implementation gives %r)"
                                  % (api, json.dumps(jcases[i]), cases[i][1]))

    # the hypotheses the theorems put on the abstract date hold for every date webob actually rendered
    if getattr(ctx, "build_ok", False) and dates:
        ds = sorted(dates)
        cases = [(cstr(d), True, {"fn": "date-hypotheses", "input": d}) for d in ds]
        bad = ctx.corr("date_hypotheses", IMPORTS + ["Webob.Spec.C07_CookieSpec", "Webob.Proofs.C07_reparse"],
                       "(fun d => VBool (cookie_date d && plain d))", cases, in_type="str")
        for i in bad[:3]:
            ctx.broken.append("rendered date %r does not satisfy the date hypotheses (cookie_date, plain) of the theorems" % ds[i])

    run_date_corr(ctx)

    # ------------------------------------------------------------------ oracle sweep on the public API
    run_oracle(ctx)
    run_histories(ctx)
    ctx.extra["rule"] = (
        "correspondence: each model function against the real function on generated inputs (all 256 single octets, random "
        "byte strings weighted towards the three alphabets and the delimiters, noisy Cookie/Set-Cookie headers, requests with "
        "valid and malformed names/SameSite values); distinct = distinct Coq input literals.  oracle: the statement evaluated on "
        "make_cookie / Response.set_cookie / Cookie / parse_cookie / Request.cookies; a case counts as distinct non-trivial when "
        "it is a new case (by its JSON form) on which a line was emitted, split, decoded and read back (cases that must raise "
        "are evaluated but not counted)")
    ctx.extra["exhaustive"] = False
    ctx.extra["exhaustive_parts"] = ("all 1- and 2-byte cookie values (65 792) through make_cookie and back through parse_cookie, "
                               "Cookie and Request.cookies; all strings of length <= %d over a 15-symbol delimiter alphabet as "
                               "path, domain and comment" % ctx.scale(2, 3))
    ctx.assume += [
        "path, domain, comment and samesite arguments are bytes or latin-1 text (anything else raises UnicodeEncodeError before "
        "a line is produced); header text seen by the input side is latin-1 (WSGI)",
        "a str value given directly to make_cookie must be ASCII (it raises UnicodeEncodeError otherwise); Response.set_cookie "
        "is the entry point for arbitrary text (utf-8)",
        "cookie values that are not valid UTF-8 round-trip exactly at parse_cookie level; that request.cookies raises "
        "UnicodeDecodeError for them (and for the other cookies of the header) is reported under the key "
        "request-cookies:non-utf8-value (proposed known finding; Props: C07_request_cookies_bytes_refuted)",
        "the rendered expires date is an abstract input of the model (hypotheses: plain, i.e. printable without ';' '\"' '\\', and "
        "cookie_date, i.e. taken in full by the expires alternative of the scanner); both are evaluated in Coq on every date "
        "webob rendered during the run, and the oracle checks format, weekday and value = utcnow()+max_age",
        "with SAMESITE_VALIDATION off a SameSite value must still be a token (it is copied verbatim); anything else must raise",
        "names that are tokens but start with '$' or spell an attribute name are refused by webob as well: reported under "
        "token-name-refused:dollar-or-attribute-name (proposed known finding; Props: C07_token_names_refused_refuted)",
        "now+max_age must be a date datetime can hold (years 1..9999); beyond that make_cookie raises OverflowError: reported "
        "under max-age-beyond-datetime-range (proposed known finding); the model's rendered date is an abstract input",
    ]
    ctx.trusted += [
        "harness/props/c07.py gen(): reading of the alphabets/tables from the live module and the structural comparison of "
        "_rx_cookie/_rx_unquote (CPython re._parser tree) with the shape the hand scanner mirrors",
        "CPython's re engine semantics for that shape (lazy/greedy/backtracking order) as transcribed in Model/C07_CookieCodec.v "
        "- validated by the findall correspondence, not verified",
        "CPython's utf-8 codec = Lib/C07_Utf8.v (validated by correspondence)",
        "the reference Set-Cookie splitter and reference unescape of Spec/C07_CookieSpec.v say what 'parses as one cookie' means",
    ]


class Tally:
    """evaluations, and distinct cases on which a line was emitted, checked and read back (non-trivial)."""

    def __init__(self, ctx, name):
        self.ctx, self.name = ctx, name
        self.t0 = time.time()
        self.n = 0
        self.seen = set()
        self.nontrivial = 0

    def check(self, case, fast=None):
        self.n += 1
        res = oracle_fast(fast) if fast is not None else oracle(case)
        key = json.dumps(case, sort_keys=True)
        if key not in self.seen:
            self.seen.add(key)
            if fast is not None or LAST["emitted"]:
                self.nontrivial += 1
        if res:
            fail_case(self.ctx, res, case, self.name)

    def done(self):
        self.ctx.oracle_count(self.name, self.n, self.nontrivial)
        self.ctx.oracle_stats[self.name]["wall_s"] = round(time.time() - self.t0, 1)


def run_oracle(ctx):
    # (1) exhaustive 1- and 2-byte values
    t = Tally(ctx, "values-1-2-bytes")
    full_every = ctx.scale(7, 1)
    for ln in (0, 1, 2):
        for tup in itertools.product(range(256), repeat=ln):
            v = bytes(tup)
            if ln < 2 or (tup[0] * 256 + tup[1]) % full_every == 0:
                t.check(value_case(v))
            else:
                t.check(value_case(v), fast=v)
    t.done()
    # (2) path / domain / comment over the delimiter alphabet
    t = Tally(ctx, "attrs-delimiters")
    depth = ctx.scale(2, 3)
    for ln in range(1, depth + 1):
        for tup in itertools.product(DELIM_ALPHA, repeat=ln):
            v = b"".join(tup)
            for attr in ("path", "domain", "comment"):
                t.check(attr_case(attr, v))
    rng = ctx.sub_rng("attrs3")
    for _ in range(ctx.scale(1500, 0)):     # quick tier: a sample of the length-3 strings
        v = b"".join(rng.choice(DELIM_ALPHA) for _ in range(3))
        t.check(attr_case(rng.choice(["path", "domain", "comment"]), v))
    t.done()
    # (3) all attribute combinations x validation flag x both entry points
    t = Tally(ctx, "attr-combinations")
    for api in ("make_cookie", "set_cookie"):
        for validate in (True, False):
            for ma in (None, 0, 7, -5, ["td", 1, 1, 5], ["td", -1, 86399, 0]):
                for secure in (False, True):
                    for httponly in (False, True):
                        for ss in [None] + SAMESITE_OK[:3] + ["None", "foo", "", "future", "x; Domain=evil.example"]:
                            for value in (b"v", b"a b;c", None):
                                for path, domain, comment in ((b"/", None, None), (None, b"d.example", b"c c"), (b"/;x", b"e,v", b'"q"')):
                                    t.check({"api": api, "validate": validate, "name": [115, 105, 100], "value": enc_value(value),
                                             "max_age": ma, "secure": secure, "httponly": httponly,
                                             "samesite": None if ss is None else enc_value(ss.encode()),
                                             "path": enc_value(path), "domain": enc_value(domain), "comment": enc_value(comment)})
    t.done()
    # (4) names: every octet as a one-letter name and inside a name; the malformed lists
    t = Tally(ctx, "names")
    for i in range(0, 256):
        for nm in (chr(i), "a" + chr(i), chr(i) + "a", "a" + chr(i) + "b"):
            for api in ("make_cookie", "set_cookie"):
                t.check({"api": api, "name": [ord(x) for x in nm], "value": enc_value(b"v"), "path": None, "validate": True})
    for nm in BAD_NAMES + REFUSED_TOKENS + TOKEN_NAMES:
        t.check({"api": "set_cookie", "name": [ord(x) for x in nm], "value": enc_value("x y"), "validate": True})
    t.done()
    # (5) random requests, Unicode values through set_cookie
    rng = ctx.sub_rng("oracle-random")
    t = Tally(ctx, "random-requests")
    for i in range(ctx.scale(6000, 120000)):
        t.check(r_case(rng, malformed=(i % 4 == 0)))
    t.done()
    t = Tally(ctx, "unicode-values")
    for i in range(ctx.scale(3000, 60000)):
        t.check({"api": "set_cookie", "name": [110], "value": enc_value(r_text(rng, 8)), "validate": True})
    t.done()
    # (5b) Response CONFIGURATIONS x texts: charset utf-8 / latin-1 / utf-16 / None, set later, subclass defaults; the
    #      line must carry the utf-8 octets and request.cookies must read the original text, whatever the response is
    t = Tally(ctx, "response-configs")
    texts = ["caf\u00e9", "\u00c3\u00a9", "\u00e9", "\u20ac", "\U0001f600", "abc", "a b", "na\u00efve;x", "\u00ff", "\u0080", "",
             "\u00c2\u00a0", "\u0416", "x[y]\u00e9", "\u00e2\u201a\u00ac"]
    for cfg in RESP_CONFIGS:
        for txt in texts + [r_text(rng, 6) for _ in range(ctx.scale(6, 60))]:
            for nb in (False, True):
                t.check({"api": "set_cookie", "resp": cfg, "name": [115, 105, 100], "name_bytes": nb, "value": enc_value(txt),
                         "validate": True})
        for val in (b"\xe9", b"caf\xc3\xa9", b"plain"):
            t.check({"api": "set_cookie", "resp": cfg, "name": [110], "value": enc_value(val), "validate": True,
                     "max_age": 5, "secure": True, "samesite": enc_value(b"None")})
        t.check({"api": "delete_cookie", "resp": cfg, "name": [110], "value": None, "path": enc_value(b"/"), "validate": True})
        t.check({"api": "delete_cookie", "resp": cfg, "name": [110], "value": None, "path": enc_value(b"/a b"),
                 "domain": enc_value(b"e.example"), "validate": True})
    t.done()
    # (5c) argument shapes and knobs: every optional argument present/absent, positional/keyword, str/bytes/bytearray,
    #      max_age int/timedelta/str/float/bool/None, truthy and falsy non-bool flags, SameSite spellings, the private
    #      "_should_raise" switch and warnings turned into errors
    t = Tally(ctx, "argument-shapes")
    max_ages = [None, 0, 5, -5, True, ["td", 0, 5, 0], ["td", 1, 0, 999999], ["str", "5"], ["str", "-5"], ["str", "+5"], ["str", "05"],
                ["str", "abc"], ["str", ""], ["str", "5.5"], ["str", "1e3"], ["str", " 5 "], ["str", "1_0"], ["str", "\u0665"],
                ["float", 5.0], ["float", 5.9], ["float", -0.5], ["bool", True], ["bool", False], 10 ** 12, -10 ** 12, 10 ** 20,
                ["td", 999999999, 0, 0], ["td", -999999999, 0, 0]]
    for api in ("make_cookie", "set_cookie"):
        for ma in max_ages:
            for value in (enc_value(b"v"), None, enc_value("x y")):
                for extra in ({}, {"positional": True}, {"defaults": True}):
                    t.check(dict({"api": api, "name": [110], "value": value, "max_age": ma, "validate": True, "path": enc_value(b"/p")},
                                 **extra))
        for flag in (True, False, 1, 0, 2, "yes", "", "0", [0], [], None, 0.0, 0.1):
            for other in (False, True):
                for ss in (None, b"None", "Lax", "STRICT", b"lax"):
                    for extra in ({}, {"positional": True}):
                        t.check(dict({"api": api, "name": [110], "value": enc_value(b"v"), "validate": True, "path": None,
                                      "secure": flag, "httponly": other, "samesite": enc_value(ss)}, **extra))
                        t.check(dict({"api": api, "name": [110], "value": enc_value(b"v"), "validate": True, "path": None,
                                      "secure": other, "httponly": flag, "samesite": enc_value(ss)}, **extra))
        # every optional argument absent / present, callee defaults in force
        opt = {"max_age": 7, "path": enc_value("/a b"), "domain": enc_value(b"d.example"), "secure": True, "httponly": 1,
               "comment": enc_value("c;d"), "samesite": enc_value("Strict")}
        keys = sorted(opt)
        for mask in range(1 << len(keys)):
            c = {"api": api, "name": [115], "value": enc_value("v\u00e9" if api == "set_cookie" else "v"), "validate": True, "defaults": True}
            for i, k in enumerate(keys):
                if mask >> i & 1:
                    c[k] = opt[k]
            t.check(c)
            if mask % 8 == 0:
                t.check(dict(c, positional=True))
        t.check({"api": "set_cookie", "name": [115], "defaults": True, "validate": True})          # value left out: ""
        for v in (b"a b", b"\xff;", b"plain", b""):
            t.check({"api": api, "name": [110], "value": {"bytearray": v.hex()}, "validate": True, "path": None})
            for knob in ({"should_raise": True}, {"warnings": "error"}):
                t.check(dict({"api": api, "name": [110], "value": enc_value(v), "validate": True, "comment": enc_value(b"c d")}, **knob))
                t.check(dict({"api": api, "name": [110], "value": enc_value(v), "validate": True, "comment": enc_value(b"cd")}, **knob))
        # names as bytes, every octet
        for i in range(256):
            for nm in ([i], [97, i], [i, 97]):
                t.check({"api": api, "name": nm, "name_bytes": True, "value": enc_value(b"v"), "validate": True, "path": None})
    t.done()
    # (5d) OUTSIDE the model's domain (the model takes octets; a str value for make_cookie must be ASCII; header text is
    #      latin-1): nothing may be emitted that breaks the statement, and only the documented refusals may be raised
    t = Tally(ctx, "outside-domain")
    wide = [[0x20ac], [47, 0x100], [0x1f600], [0xd800], [97, 0x2028]]
    for api in ("make_cookie", "set_cookie"):
        for attr in ("path", "domain", "comment", "samesite"):
            for w in wide:
                t.check({"api": api, "name": [110], "value": enc_value(b"v"), "validate": attr != "samesite" or w == wide[0],
                         "path": None, attr: {"text": w}})
        for w in wide + [[233], [0x80]]:
            t.check({"api": api, "name": [110], "value": {"text": w}, "validate": True, "path": None})
            t.check({"api": api, "name": w, "value": enc_value(b"v"), "validate": True, "path": None})
    res = oracle_foreign_types()
    if res:
        fail_case(ctx, res, {"kind": "foreign-types"}, "outside-domain")
    t.n += 1
    t.done()
    # (5e) the interpreter flag: the same refusals must hold under python -O (no reliance on assert)
    cases = []
    for api in ("make_cookie", "set_cookie"):
        for nm in BAD_NAMES + REFUSED_TOKENS + TOKEN_NAMES:
            cases.append({"api": api, "name": [ord(x) for x in nm], "value": enc_value(b"v"), "validate": True, "optimize": True})
        for i in list(range(0, 256, 1)):
            cases.append({"api": api, "name": [97, i, 98], "value": enc_value(b"v"), "validate": True, "path": None, "optimize": True})
        for ss, sec, val in ((b"None", False, True), (b"bogus", True, True), (b"None", False, False), (b"Lax", False, True)):
            cases.append({"api": api, "name": [110], "value": enc_value(b"a b"), "validate": val, "samesite": enc_value(ss), "secure": sec,
                          "max_age": 5, "optimize": True})
        cases.append({"api": api, "name": [110], "value": enc_value(b"v"), "validate": True, "max_age": ["str", "abc"], "optimize": True})
    t0 = time.time()
    bad = run_under_optimize(cases)
    for i, key, msg in bad:
        fail_case(ctx, (key, msg), cases[i], "python-O")
    ctx.oracle_count("python-O", len(cases), len(cases))
    ctx.oracle_stats["python-O"]["wall_s"] = round(time.time() - t0, 1)
    # (6) longer byte values
    t = Tally(ctx, "values-longer")
    for i in range(ctx.scale(4000, 80000)):
        v = bytes(rng.randrange(256) for _ in range(rng.randrange(3, 12))) if i % 2 else r_bytes(rng, 12)
        t.check(value_case(v, api=rng.choice(["make_cookie", "set_cookie"])))
    t.done()


# =========================================================================== histories: long-lived objects, module state
DATE_SUB = re.compile(r"expires=(?:Mon|Tue|Wed|Thu|Fri|Sat|Sun), \d\d-[A-Z][a-z]{2}-\d{4} \d\d:\d\d:\d\d GMT")


def canon_result(r):
    """Result of one make_cookie/set_cookie call with the clock taken out (the delete date has a 2-digit year and stays)."""
    if isinstance(r, Err):
        return "raises " + r.name
    return DATE_SUB.sub("expires=<DATE>", r)


def hist_calls(case):
    """The same calls in one process in the given order, in reverse order and once more in the given order, with
    SAMESITE_VALIDATION flipping from call to call as each case says: every call must give what it gives when it is
    the first call (module-level state - escape maps, quoters, the flag - must not leak from call to call), every
    emitted line must satisfy the statement, and the flag must be left as it was found."""
    calls = case["calls"]
    ck = C()
    flag0 = ck.SAMESITE_VALIDATION
    runs = []
    for order in (list(range(len(calls))), list(reversed(range(len(calls)))), list(range(len(calls)))):
        out = [None] * len(calls)
        for i in order:
            out[i] = canon_result(call_api(calls[i])[0])
        runs.append(out)
    if ck.SAMESITE_VALIDATION is not flag0:
        return "module-state:flag-not-restored", "SAMESITE_VALIDATION left as %r" % (ck.SAMESITE_VALIDATION,)
    for i, c in enumerate(calls):
        if not (runs[0][i] == runs[1][i] == runs[2][i]):
            return ("module-state:call-depends-on-history",
                    "call #%d %r gives %r in the given order, %r in reverse order, %r the third time"
                    % (i, c, runs[0][i], runs[1][i], runs[2][i]))
    for i, c in enumerate(calls):
        res = oracle(c)
        if res:
            if res[0] in FINDING_KEYS:
                return res
            return "history:" + res[0], "call #%d of the history: %s" % (i, res[1])
    return None


def hist_response(case):
    """ONE Response receives all the set_cookie calls: after each call its Set-Cookie headers must be exactly the lines
    fresh Responses give for the calls so far (earlier lines untouched, one line appended per successful call, nothing
    appended by a call that raises), the arguments must not be mutated."""
    resp = make_response(case.get("resp"))
    base = list(resp.headerlist)
    want = []
    for i, c in enumerate(case["calls"]):
        c = dict(c, api="set_cookie", resp=None)     # the reference is a default Response: the configuration must not matter
        fresh, _, _ = call_api(c)
        args, kw, value = build_call(c)
        kw_before = dict(kw)
        with Validation(c.get("validate", True)), warnings.catch_warnings():
            warnings.simplefilter("ignore")
            r = catch(resp.set_cookie, *args, **kw)
        if kw != kw_before:
            return "argument-mutated", "set_cookie changed its keyword arguments: %r -> %r" % (kw_before, kw)
        if isinstance(fresh, Err) != isinstance(r, Err) or (isinstance(r, Err) and r != fresh):
            return ("response-history:raise-differs", "call #%d %r: the long-lived Response gives %r, a fresh one %r" % (i, c, r, fresh))
        if not isinstance(fresh, Err):
            want.append(canon_result(fresh))
        got = [canon_result(v) for k, v in resp.headerlist[len(base):]]
        keys = [k for k, v in resp.headerlist[len(base):]]
        if resp.headerlist[:len(base)] != base or got != want or any(k != "Set-Cookie" for k in keys):
            return ("response-history:set-cookie-lines",
                    "after call #%d %r the Response carries %r, fresh Responses give %r" % (i, c, got, want))
        if [canon_result(v) for v in resp.headers.getall("Set-Cookie")] != want:
            return "response-history:headers-view", "resp.headers.getall('Set-Cookie') differs from the header list"
    return None


def morsel_state(m):
    return [m.name, m.value, sorted((k, v) for k, v in dict(m).items())]


def hist_jar(case):
    """ONE Cookie() is loaded with several headers and serialised repeatedly: serialize()/str() are repeatable, do not
    change any morsel, and the jar equals what fresh Cookie(header) objects give, header by header (later wins)."""
    ck = C()
    jar = ck.Cookie()
    want = {}
    for i, h in enumerate(case["headers"]):
        jar.load(h)
        fresh = ck.Cookie(h)
        for k, m in fresh.items():
            want[k] = morsel_state(m)
        before = {k: morsel_state(m) for k, m in jar.items()}
        if before != want:
            return ("jar-history:load", "after loading %r into one Cookie() it holds %r, fresh jars give %r"
                    % (case["headers"][:i + 1], before, want))
        texts = []
        for rep in range(3):
            r = catch(lambda: [jar.serialize(), jar.serialize(False), str(jar), [m.serialize() for m in jar.values()],
                               [m.serialize(False) for m in jar.values()]])
            texts.append(r)
            after = {k: morsel_state(m) for k, m in jar.items()}
            if after != before:
                return ("jar-history:serialize-mutates", "serialize() changed the morsels of Cookie loaded with %r: %r -> %r"
                        % (case["headers"][:i + 1], before, after))
        if not (texts[0] == texts[1] == texts[2]):
            return ("jar-history:serialize-not-repeatable", "Cookie loaded with %r serialises as %r, then %r, then %r"
                    % (case["headers"][:i + 1], texts[0], texts[1], texts[2]))
        fr = catch(lambda: [m.serialize() for m in fresh.values()])
        mine = catch(lambda: [jar[k].serialize() for k in sorted(fresh.keys())])
        if fr != mine:
            return ("jar-history:morsel-serialize", "morsels of %r serialise as %r in the long-lived jar, %r in a fresh one"
                    % (h, mine, fr))
    return None


def hist_morsel(case):
    """ONE Morsel built by hand, serialised several times in both forms, attributes changed in between: every
    serialisation equals that of a brand-new Morsel with the same attributes, and reads do not change it."""
    ck = C()

    def build(upto):
        m = ck.Morsel(case["mname"].encode("ascii"), bytes.fromhex(case["mvalue"]))
        for k, v in case["steps"][:upto]:
            setattr(m, k, bytes.fromhex(v) if isinstance(v, str) else v)
        return m
    with Validation(True), warnings.catch_warnings():
        warnings.simplefilter("ignore")
        m = build(0)
        for i in range(len(case["steps"]) + 1):
            if i:
                k, v = case["steps"][i - 1]
                setattr(m, k, bytes.fromhex(v) if isinstance(v, str) else v)
            st = morsel_state(m)
            got = [catch(m.serialize), catch(m.serialize, False), catch(m.serialize), catch(str, m)]
            if morsel_state(m) != st:
                return "morsel-history:serialize-mutates", "serialize() changed the Morsel: %r -> %r" % (st, morsel_state(m))
            f = build(i)
            want = [catch(f.serialize), catch(f.serialize, False), catch(f.serialize), catch(str, f)]
            if got != want:
                return ("morsel-history:differs-from-fresh", "after steps %r the long-lived Morsel serialises as %r, a fresh one as %r"
                        % (case["steps"][:i], got, want))
    return None


def hist_environ(case):
    """ONE environ (one Request) serves several different Cookie headers in sequence, each read more than once and
    through different accessors: every answer equals that of a brand-new environ, reading does not change HTTP_COOKIE."""
    from webob import Request
    env = {"REQUEST_METHOD": "GET"}
    req = Request(env)
    for i, h in enumerate(case["headers"]):
        env["HTTP_COOKIE"] = h
        fresh = catch(lambda: list(Request({"HTTP_COOKIE": h}).cookies.items()))
        for rep in range(2):
            got = catch(lambda: list(req.cookies.items()))
            if got != fresh:
                return ("environ-history:cookies", "header #%d %r read through a long-lived environ gives %r, a fresh environ %r "
                        "(headers so far %r)" % (i, h, got, fresh, case["headers"][:i + 1]))
            if not isinstance(fresh, Err):
                other = [catch(lambda: sorted(req.cookies.keys())), catch(lambda: len(req.cookies)),
                         catch(lambda: [req.cookies.get(k) for k, _ in fresh]), catch(lambda: [k in req.cookies for k, _ in fresh])]
                wanto = [sorted(k for k, _ in fresh), len(fresh), [v for _, v in fresh], [True] * len(fresh)]
                if other != wanto:
                    return "environ-history:accessors", "keys/len/get/in on %r give %r, expected %r" % (h, other, wanto)
            if env.get("HTTP_COOKIE") != h:
                return "environ-history:header-changed", "reading request.cookies changed HTTP_COOKIE %r -> %r" % (h, env.get("HTTP_COOKIE"))
    return None


def first_name(line):
    return line.split("=", 1)[0]


def hist_overwrite(case):
    """set_cookie(..., overwrite=True) on a Response that already carries cookies (of the same and of other names,
    with flags): the new line is the one a fresh Response emits and is last, no other line of that name remains, the
    lines of other names are untouched and keep their order."""
    resp = make_response(case.get("resp"))
    for c in case["pre"]:
        r, _, _ = None, None, None
        args, kw, _v = build_call(dict(c, api="set_cookie"))
        with Validation(c.get("validate", True)), warnings.catch_warnings():
            warnings.simplefilter("ignore")
            catch(resp.set_cookie, *args, **kw)
    before = [canon_result(v) for k, v in resp.headerlist if k == "Set-Cookie"]
    others_hdrs = [(k, v) for k, v in resp.headerlist if k != "Set-Cookie"]
    c = dict(case["call"], api="set_cookie")
    fresh, _, _ = call_api(dict(c, overwrite=None, resp=None))
    args, kw, _v = build_call(c)
    with Validation(c.get("validate", True)), warnings.catch_warnings():
        warnings.simplefilter("ignore")
        r = catch(resp.set_cookie, *args, **kw)
    after = [canon_result(v) for k, v in resp.headerlist if k == "Set-Cookie"]
    name = "".join(chr(x) for x in c["name"])
    if isinstance(fresh, Err):
        if not isinstance(r, Err):
            return "overwrite:emitted-where-fresh-raises", "set_cookie(%r, overwrite=%r) emitted %r, a fresh call raises %s" % (c, c.get("overwrite"), after, fresh.name)
        return None
    if isinstance(r, Err):
        return "overwrite:spurious-raise:" + r.name, "set_cookie(%r) with overwrite=%r on a Response carrying %r raises %s" % (c, c.get("overwrite"), before, r.name)
    if [(k, v) for k, v in resp.headerlist if k != "Set-Cookie"] != others_hdrs:
        return "overwrite:other-headers", "set_cookie with overwrite changed headers other than Set-Cookie"
    keep = [l for l in before if first_name(l) != name] if c.get("overwrite") else before
    want = keep + [canon_result(fresh)]
    if after != want:
        return "overwrite:set-cookie-lines", "Response carrying %r, then set_cookie(%r, overwrite=%r): now %r, expected %r" % (
            before, c, c.get("overwrite"), after, want)
    return None


def oracle_foreign_types(case=None):
    """Value domains nobody promises anything about (value/name of a foreign type, a Cookie header that is not latin-1,
    Morsel.expires in all its accepted shapes): the only demand is that nothing unsafe is emitted - either a documented
    kind of exception, or a line that satisfies the statement."""
    from webob import Request, Response
    ck = C()
    with warnings.catch_warnings():
        warnings.simplefilter("ignore")
        for v in (5, 5.5, ["a"], {"a": 1}, object(), memoryview(b"a;b")):
            for f in (lambda: ck.make_cookie("n", v), lambda: Response().set_cookie("n", v)):
                r = catch(f)
                if not isinstance(r, Err) and r is not None:
                    if any(not (32 <= ord(c) <= 126) for c in r) or isinstance(ref_split(r), str):
                        return "foreign-type:unsafe-line", "value %r of type %s emitted as %r" % (v, type(v).__name__, r)
        for nm in (5, None, ["n"], b"", ""):
            r = catch(ck.make_cookie, nm, "v")
            if not isinstance(r, Err):
                return "foreign-type:name-emitted", "name %r emitted as %r" % (nm, r)
        for h in ("n=\u20ac", "\u0100=1", "a=1; b=\U0001f600"):
            r = catch(lambda: dict(Request({"HTTP_COOKIE": h}).cookies))
            if r != Err("UnicodeEncodeError"):
                return "foreign-type:non-latin1-header", "request.cookies on the non-latin-1 header %r gives %r" % (h, r)
        r = catch(lambda: dict(Request({}).cookies))
        if r != {}:
            return "foreign-type:no-header", "request.cookies without HTTP_COOKIE gives %r" % (r,)
        # Morsel.expires: None / bytes / str / int / timedelta / datetime / date
        now = datetime.datetime.utcnow().replace(microsecond=0)
        shapes = [None, DELETE_DATE.encode(), DELETE_DATE, 0, 3600, -5, datetime.timedelta(days=1, seconds=5), now + datetime.timedelta(days=400),
                  datetime.date(2031, 2, 3), datetime.datetime(1999, 12, 31, 23, 59, 59)]
        for e in shapes:
            m = ck.Morsel(b"n", b"v")
            r = catch(setattr, m, "expires", e)
            line = catch(m.serialize) if not isinstance(r, Err) else r
            if isinstance(line, Err):
                return "morsel-expires:raises", "Morsel.expires = %r: %s" % (e, line.name)
            if e is None:
                if line != "n=v":
                    return "morsel-expires:none", "Morsel.expires = None serialises as %r" % line
                continue
            sp = ref_split(line)
            if isinstance(sp, str) or sp[0] != "n" or len(sp[2]) != 1 or sp[2][0][0] != "expires":
                return "morsel-expires:line", "Morsel.expires = %r serialises as %r" % (e, line)
            text = sp[2][0][1]
            if isinstance(e, (bytes, str)):
                ok = text == DELETE_DATE
            else:
                mm = DATE_RX.match(text)
                ok = bool(mm)
                if ok and isinstance(e, (int, datetime.timedelta)):
                    secs = e if isinstance(e, int) else e.days * 86400 + e.seconds
                    ok = check_date(text, secs, now, datetime.datetime.utcnow(), False) is None
                elif ok and isinstance(e, datetime.datetime):
                    ok = check_date(text, 0, e, e, False) is None
                elif ok:
                    ok = check_date(text, 0, datetime.datetime(e.year, e.month, e.day), datetime.datetime(e.year, e.month, e.day), False) is None
            jar = ck.Cookie(line)
            if not ok or list(jar.keys()) != [b"n"] or jar[b"n"][b"expires"] != text.encode("ascii"):
                return "morsel-expires:date", "Morsel.expires = %r serialises as %r (read back %r)" % (e, line, dict(jar.get(b"n") or {}).get(b"expires"))
    return None


HISTORY_KINDS = {"foreign-types": oracle_foreign_types, "overwrite": hist_overwrite, "calls": hist_calls, "response": hist_response, "jar": hist_jar, "morsel": hist_morsel, "environ": hist_environ}


def oracle_history(case):
    with warnings.catch_warnings():
        warnings.simplefilter("ignore")
        return HISTORY_KINDS[case["kind"]](case)


def r_emitted_pairs(rng, n):
    """n rendered name=value pairs (several of them quoted) with their plain values"""
    ck = C()
    out = []
    for _ in range(n):
        nm = rng.choice(TOKEN_NAMES[:6])
        v = rng.choice([b"x y", b"a;b", b'q"q', b"\xc3\xa9", b"plain", b"", b"x[y]", b"\\", b"1,2"]) if rng.random() < 0.6 else r_bytes(rng, 5)
        with warnings.catch_warnings():
            warnings.simplefilter("ignore")
            out.append(nm + "=" + ck._value_quote(v).decode("latin-1"))
    return out


def r_history(rng, kind):
    n = rng.randrange(2, 7)
    if kind in ("calls", "response"):
        calls = []
        same_len = r_bytes(rng, 4)
        for i in range(n):
            c = r_case(rng, api="set_cookie" if kind == "response" else None, malformed=(rng.random() < 0.25))
            x = rng.random()
            if x < 0.3:      # values of equal length side by side
                c["value"] = enc_value(bytes(rng.choice(ALLOWED_SAMPLE + DELIM_SAMPLE) for _ in range(len(same_len) or 2)))
            elif x < 0.45:   # the SameSite=None / Secure rule with the flag going on and off
                c["samesite"] = enc_value(rng.choice([b"None", b"none", b"Lax", b"bogus"]))
                c["secure"] = rng.random() < 0.5
                c["validate"] = (i % 2 == 0)
            calls.append(c)
            if x < 0.45 and rng.random() < 0.7:
                # the same request again with only the module flag flipped (and once more flipped back)
                c2 = dict(c, validate=not c["validate"])
                calls.append(c2)
                if rng.random() < 0.5:
                    calls.append(dict(c))
        h = {"kind": kind, "calls": calls}
        if kind == "response":
            h["resp"] = rng.choice(RESP_CONFIGS)
            for c in calls:
                c.pop("resp", None)
        return h
    if kind == "overwrite":
        pre = []
        names = rng.sample(TOKEN_NAMES[:5], 3)
        for _ in range(rng.randrange(0, 5)):
            c = r_case(rng, api="set_cookie")
            c["name"] = [ord(x) for x in rng.choice(names)]
            c.pop("resp", None)
            pre.append(c)
        call = r_case(rng, api="set_cookie")
        call["name"] = [ord(x) for x in rng.choice(names)]
        call.pop("resp", None)
        call["overwrite"] = rng.choice([True, True, True, False, 1, 0])
        return {"kind": "overwrite", "pre": pre, "call": call, "resp": rng.choice(RESP_CONFIGS)}
    if kind == "jar":
        hs = []
        for _ in range(n):
            parts = r_emitted_pairs(rng, rng.randrange(1, 4))
            h = []
            for p in parts:
                h.append(p)
                if rng.random() < 0.6:
                    h.append(rng.choice(["Path=/", "Path=/a\\073b", "Domain=example.com", "Max-Age=5", "Comment=\"c d\"",
                                         "expires=" + DELETE_DATE, "SameSite=Lax", "SameSite=None", "secure", "HttpOnly"]))
            hs.append("; ".join(h))
        return {"kind": "jar", "headers": hs}
    if kind == "morsel":
        steps = []
        for _ in range(n):
            k = rng.choice(["path", "domain", "comment", "max_age", "secure", "httponly", "samesite", "expires"])
            if k in ("secure", "httponly"):
                v = rng.random() < 0.7
            elif k == "max_age":
                v = rng.choice([0, 5, 3600])
            elif k == "samesite":
                v = rng.choice([b"Lax", b"strict", b"None"]).hex()
            elif k == "expires":
                v = DELETE_DATE.encode().hex()
            else:
                v = rng.choice([b"/", b"/a b", b"x;y", b"", b"e.example", b'"c"']).hex()
            steps.append([k, v])
        return {"kind": "morsel", "mname": rng.choice(TOKEN_NAMES[:6]), "mvalue": r_bytes(rng, 5).hex(), "steps": steps}
    # environ: headers of equal length and of equal prefix side by side, several quoted values in one header
    hs = []
    for _ in range(n):
        x = rng.random()
        if x < 0.5 and hs:
            prev = hs[-1]
            h = prev[:-1] + rng.choice("abc019") if prev else "a=1"
        else:
            h = "; ".join(r_emitted_pairs(rng, rng.randrange(0, 4)))
        hs.append(h)
    return {"kind": "environ", "headers": hs}


def run_histories(ctx):
    for kind in ("calls", "response", "overwrite", "jar", "morsel", "environ"):
        rng = ctx.sub_rng("history-" + kind)
        n = ctx.scale(150 if kind in ("calls", "response", "overwrite") else 250, 3000)
        seen = set()
        fails = 0
        for _ in range(n):
            h = r_history(rng, kind)
            seen.add(json.dumps(h, sort_keys=True))
            res = oracle_history(h)
            if res:
                fail_case(ctx, res, h, "history-" + kind)
        ctx.oracle_count("history-" + kind, n, len(seen))


def oracle_fast(v):
    """The core of the statement for one byte value (used for the bulk of the 2-byte sweep in the quick tier):
    printable, no exposed delimiter, denotes v, and comes back as v next to other cookies."""
    ck = C()
    line = catch(ck.make_cookie, "n", v, path=None)
    if isinstance(line, Err):
        return "spurious-raise:" + line.name, "make_cookie('n', %r) raises %s" % (v, line.name)
    if not line.startswith("n=") or ";" in line:
        return "ref-split", "make_cookie('n', %r, path=None) = %r" % (v, line)
    raw = line[2:]
    bad = [c for c in raw if not (32 <= ord(c) <= 126)]
    if bad:
        return "not-printable-ascii:%02x" % min(ord(bad[0]), 255), "Set-Cookie line %r contains %r" % (line, bad[0])
    got, exposed = spec_unescape(raw.encode("ascii"), True)
    if exposed is not None:
        return "delimiter-exposed:%02x" % exposed, "value %r emitted as %r: octet %#x outside an escaped form" % (v, raw, exposed)
    if got != v:
        return "value-changed", "value %r emitted as %r which denotes %r" % (v, raw, got)
    hdr = "a=1; " + line + "; b=2"
    got = list(ck.parse_cookie(hdr))
    if got != [(b"a", b"1"), (b"n", v), (b"b", b"2")]:
        mine = [x for k, x in got if k == b"n"]
        d = culprit(raw, True, mine[0], v) if mine else None
        if d is not None:
            return "raw-octet-not-reparsed:%02x" % d, "parse_cookie(%r) reads n as %r, not %r" % (hdr, mine[0], v)
        return "echo-roundtrip", "parse_cookie(%r) = %r" % (hdr, got)
    return None


def replay(ctx, path):
    warnings.simplefilter("ignore")
    data = json.load(open(path))
    case = data["case"]
    if isinstance(case, dict) and ("name" in case or "kind" in case):
        res = oracle_any(case)
        if res:
            print("VIOLATION property=C07 replay=%s" % path)
            print("  (%s) %s" % res)
            return 1
        print("replay passes on the current tree")
        return 0
    print("replay: nothing executable in this file (broken obligation / model disagreement): %s" % data.get("what"))
    return 1
