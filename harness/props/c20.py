"""C20 — HTTP wire forms round-trip; sub-requests return exactly what the app sent.

Tie to the source: coq/Model/C20_wire.v (Request.as_bytes / from_bytes / from_file, url / host_url /
headers view / body getter+setter; Response.from_file / __str__) and coq/Model/C20_callapp.v
(call_application / send over application scripts) are compared with the real webob on generated
inputs: structured requests built from environs, serialisations and mutated / malformed byte streams,
text and binary file objects, response wire forms, and scripts of WSGI application behaviour.

Oracle: the property's statement evaluated on the real public API, against an independent reference:
the expected request line / header lines / framing are computed by the harness (not by webob), the
response wire form is the one a WSGI server would write, and the expected outcome of a sub-request is
what a conforming WSGI server would deliver for the same application script.
"""
import io
import json
import sys
import tempfile

from harness import fw
from harness.fw import Err, cstr, clist, cpair, copt, cnat, cbool

IMPORTS = ["Webob.Lib.PyStr", "Webob.Model.C20_wire", "Webob.Model.C20_callapp", "Webob.Model.C20_obs"]

K_EXC = "call_application:exc_info-reraised-as-new-exception"
K_MD5 = "response-from_file:content-md5-dropped"
K_NBSP = "response-from_file:text-file-strips-non-ascii-whitespace"
K_LAZY = "call_application:iterable-events-after-eager-start_response-lost"
K_EMPTY = "request-roundtrip:empty-path-has-no-request-target"
K_NOHOST = "request-roundtrip:url-host-lost-without-host-header"
K_HTTPS = "request-roundtrip:url-scheme-lost-https"
K_TEXTLEN = "from_file:text-file-content-length-counted-in-characters"
K_METHOD = "request-roundtrip:method-upper-cased"

STR_WS = set("\t\n\x0b\x0c\r\x1c\x1d\x1e\x1f \x85\xa0")
ASCII_WS = set(" \t\n\r\x0b\x0c")


def L1(b):
    return b.decode("latin-1")


# =========================================================================== requests
class NonSeekable:
    """wsgi.input that can only be read"""

    def __init__(self, data):
        self._f = io.BytesIO(data)

    def read(self, n=-1):
        return self._f.read(n)

    def readline(self, n=-1):
        return self._f.readline(n)


_REQ_CLASSES = {}


def req_class(name):
    """the configuration knobs of the request classes: url_encoding, request_body_tempfile_limit, the class itself"""
    from webob.request import Request, BaseRequest
    if not _REQ_CLASSES:
        class LatinRequest(Request):
            url_encoding = "latin-1"

        class SmallTmpRequest(Request):
            request_body_tempfile_limit = 4

        _REQ_CLASSES.update({None: Request, "request": Request, "base": BaseRequest, "latin1": LatinRequest, "smalltmp": SmallTmpRequest})
    return _REQ_CLASSES[name]


class MinimalFile:
    """only what from_file documents it needs: .read(size) and .readline()"""

    def __init__(self, f):
        self._f = f

    def read(self, *a):
        return self._f.read(*a)

    def readline(self):
        return self._f.readline()


def build_request(E):
    """A real Request over an environ that corresponds to the model env E (a dict)."""
    Request = req_class(E.get("cls"))
    environ = {
        "REQUEST_METHOD": E["method"],
        "SCRIPT_NAME": L1(E["script"]),
        "PATH_INFO": L1(E["path"]),
        "QUERY_STRING": E["qs"],
        "SERVER_PROTOCOL": E["proto"],
        "wsgi.url_scheme": E["scheme"],
        "SERVER_NAME": E["sname"],
        "SERVER_PORT": E["sport"],
        "wsgi.version": (1, 0),
        "wsgi.errors": sys.stderr,
        "wsgi.multithread": False,
        "wsgi.multiprocess": False,
        "wsgi.run_once": False,
    }
    for k, v in E["hdrs"]:
        environ[k] = v
    environ["wsgi.input"] = io.BytesIO(E["input"]) if E["seekable"] else NonSeekable(E["input"])
    environ["webob.is_body_seekable"] = bool(E["seekable"])
    if E["term"]:
        # the flag and its legacy spelling
        environ["webob.is_body_readable" if E.get("legacy_term") else "wsgi.input_terminated"] = True
    return Request(environ)


def citems(l):
    return clist(cpair(cstr(k), cstr(v)) for k, v in l)


def cenv(E):
    return "(mkEnv %s %s %s %s %s %s %s %s %s %s %s %s)" % (
        cstr(E["method"]), cstr(E["script"]), cstr(E["path"]), cstr(E["qs"]), cstr(E["proto"]), cstr(E["scheme"]),
        cstr(E["sname"]), cstr(E["sport"]), citems(E["hdrs"]), cstr(E["input"]), cbool(E["seekable"]), cbool(E["term"]))


def cskip(sk):
    if sk is False:
        return "SkipNo"
    if sk is True or sk == 1:
        return "SkipAll"
    return "(SkipOver %s)" % cnat(sk)


def exc_name(e):
    return type(e).__name__


def catch(f):
    try:
        return f()
    except Exception as e:  # noqa
        return Err(exc_name(e))


def observe_req(r):
    hdrs = [[k, v] for k, v in r.headers.items()]
    return [r.method, catch(lambda: r.url), r.http_version, hdrs, catch(lambda: r.body)]


def jE(E):
    d = dict(E)
    for k in ("script", "path", "input"):
        d[k] = E[k].hex()
    return d


def unjE(d):
    E = dict(d)
    for k in ("script", "path", "input"):
        E[k] = bytes.fromhex(d[k])
    E["hdrs"] = [tuple(p) for p in d["hdrs"]]
    return E


# --------------------------------------------------------------------------- generators (requests)
# trailing data, with the whitespace-only and line-terminator-only suffixes a lenient check would let through
EXTRAS = [b"", b"X", b"\r\n", b"\n", b" ", b"\t ", b"\r\n\r\n", b"\r", b"\x0b\x0c", b"GET / HTTP/1.0\r\n\r\n", b"\x00", b"\xa0"]
METHODS = ["GET", "POST", "PUT", "DELETE", "PATCH", "HEAD", "OPTIONS", "PROPFIND", "M-SEARCH", "X_Y", "FOO!", "A1",
           "get", "Post", "m-search", "pATCH"]          # a method is a case-sensitive token
PROTOS = ["HTTP/1.0", "HTTP/1.1", "HTTP/1.1", "HTTP/2", "HTTP/0.9"]
HOSTS = ["localhost:80", "example.com", "example.com:8080", "example.com:80", "example.com:443", "[::1]:8080", "[::1]",
         "a.b-c.example:1"]
SEGS = [b"", b"x", b"a b", b"a%b", b"a?b", b"a#b", b";p=1", b":@", b"~u", b"a+b", b"a,b", b"%41", b"100%", b"a\"b", b"<>",
        "\xe9".encode("utf-8"), "€\xfc".encode("utf-8"), "\U0001f600".encode("utf-8"), b".", b"..", b"a=b&c", b"\\", b"'q'"]
QCH = "abzAZ019=&%+?/#;:@!$'()*,-._~[]{}|\\^`\"<>"
HDR_KEYS = ["HTTP_ACCEPT", "HTTP_X_FOO", "HTTP_X_3D", "HTTP_USER_AGENT", "HTTP_COOKIE", "HTTP_X_A", "HTTP_X_B1_C", "HTTP_IF_NONE_MATCH",
            "CONTENT_TYPE", "HTTP_CONTENT_TYPE", "HTTP_CONTENT_LENGTH", "HTTP_A", "HTTP_ZZ", "HTTP_REFERER", "HTTP_X9"]
VCH = "abcXYZ019:,;= \t\"'()<>@/[]?{}\\!#$%&*+-.^_`|~"


def rand_value(rng, tight=True):
    n = rng.choice([0, 1, 1, 2, 3, 5, 8, 13])
    s = "".join(rng.choice(VCH) for _ in range(n))
    if rng.random() < 0.25:
        s = rng.choice(["a: b, c; d  e", "text/html; charset=utf-8", "x=1; y=\"2, 3\"", "W/\"abc\", \"d:e\"", "a\tb", "::", ",,", "; ;",
                        "Mozilla/5.0 (X11; Linux x86_64)", "1"])
    if tight:
        s = s.strip("".join(STR_WS))
    return s


def rand_qs(rng):
    if rng.random() < 0.3:
        return ""
    if rng.random() < 0.4:
        return rng.choice(["a=1", "a=1&b=%20x", "q=a+b", "x=?&y=/", "%E9=%FF", "a=b#frag", "?", "&&", "=", "a=http://h/p?q"])
    return "".join(rng.choice(QCH) for _ in range(rng.randrange(1, 9)))


def rand_path(rng, allow_empty=False):
    n = rng.choice([0, 1, 1, 2, 2, 3])
    if allow_empty and rng.random() < 0.5:
        return b""
    if n == 0 and not allow_empty:
        return b"/"
    return b"".join(b"/" + rng.choice(SEGS) for _ in range(n))


BODIES = [b"", b"x", b"a=1&b=2", b"\r\n\r\n", b"\r\n\r\nGET / HTTP/1.0\r\nX: y\r\n\r\n", b"\xff\xfe\x00", b"\n", b"\r", b"X: y\r\n",
          b"\xc3\xa9", b"\xc3", b"line1\nline2\n", b"\x00" * 5, b"Content-Length: 3\r\n\r\nabc", b"  ", b"\xa0\x85"]


W1, W2, W3, W4 = "ab z0", "\xe9\xf6\xa0\u0416", "\u20ac\u2713\u4e2d", "\U0001f389\U0001d11e\U0001f600\U00010000\U0010ffff"
TEXT_TRAILERS = ["NEXT", " ", "\r\n", "\xe9\u20ac", "\U0001f389x", "\U0001f600\U0001f600\U0001f600\U0001f600"]


def rand_text(rng):
    """text over all four UTF-8 widths, with a run of 0..5 four-byte characters at the tail and a length around the
    chunk arithmetic of read_text_body (1..16 bytes missing on the later reads)"""
    pools = [W1, W1, W2, W3, W4]
    head = "".join(rng.choice(rng.choice(pools)) for _ in range(rng.choice([0, 1, 2, 3, 5, 8])))
    tail = "".join(rng.choice(W4) for _ in range(rng.choice([0, 1, 2, 3, 3, 4, 5])))
    if rng.random() < 0.2:
        tail += rng.choice(W1 + W2 + W3)
    return head + tail


def rand_body(rng, maxlen=40):
    if rng.random() < 0.2:
        return rand_text(rng).encode("utf-8")
    if rng.random() < 0.5:
        return rng.choice(BODIES)
    n = rng.randrange(0, maxlen)
    alphabet = rng.choice([b"\r\n", b"\r\n\xff:a ", bytes(range(256)), b"ab"])
    return bytes(rng.choice(alphabet) for _ in range(n))


def rand_hdrs(rng, host=True):
    hdrs = []
    if host:
        hdrs.append(("HTTP_HOST", rng.choice(HOSTS)))
    keys = rng.sample(HDR_KEYS, rng.choice([0, 0, 1, 2, 3, 5]))
    for k in keys:
        hdrs.append((k, rand_value(rng)))
    rng.shuffle(hdrs)
    return hdrs


def rand_env(rng, wellformed=False):
    """wellformed: inside the hypotheses of the round-trip theorem (http, Host present, consistent body)"""
    script = rng.choice([b"", b"", b"", b"/app", b"/a b", "/\xe9".encode("utf-8")])
    path = rand_path(rng, allow_empty=(bool(script) and rng.random() < 0.3) or (not script and rng.random() < 0.06))
    if not path and not script and rng.random() < 0.0:
        pass
    E = {"method": rng.choice(METHODS), "script": script, "path": path, "qs": rand_qs(rng), "proto": rng.choice(PROTOS),
         "scheme": "http" if wellformed or rng.random() < 0.8 else "https",
         "sname": rng.choice(["localhost", "srv.example"]), "sport": rng.choice(["80", "8080", "443"]),
         "hdrs": rand_hdrs(rng, host=wellformed or rng.random() < 0.85), "input": b"", "seekable": True, "term": False}
    r = rng.random()
    if r < 0.12:
        E["cls"] = "latin1"
        E["path"] = E["path"] + b"/" + rng.choice([b"\xe9", b"\xff\xfe", b"caf\xe9 x", b"\x80", b"\xa0"])
    elif r < 0.22:
        E["cls"] = "smalltmp"
    elif r < 0.30:
        E["cls"] = "base"
    E["legacy_term"] = rng.random() < 0.3
    body = rand_body(rng)
    mode = rng.choice(["cl", "cl", "cl", "none", "zero", "file"] if wellformed else
                      ["cl", "cl", "none", "zero", "file", "term-seekable", "short-cl", "long-cl", "junk-cl", "long-cl-ns", "short-cl-ns"])
    pos = rng.randrange(len(E["hdrs"]) + 1)
    if mode == "cl":
        E["input"] = body
        E["seekable"] = rng.random() < 0.8
        if body or rng.random() < 0.5:
            E["hdrs"].insert(pos, ("CONTENT_LENGTH", str(len(body))))
    elif mode == "none":
        E["input"] = body if not wellformed else b""
    elif mode == "zero":
        E["input"] = body if not wellformed else b""
        E["hdrs"].insert(pos, ("CONTENT_LENGTH", "0"))
    elif mode == "file":                      # the state after `req.body_file = f`
        E["input"], E["seekable"], E["term"] = body, False, True
    elif mode == "term-seekable":
        E["input"], E["seekable"], E["term"] = body, True, True
    elif mode in ("short-cl", "short-cl-ns"):
        E["input"], E["seekable"] = body, mode == "short-cl"
        E["hdrs"].insert(pos, ("CONTENT_LENGTH", str(rng.randrange(0, len(body) + 1))))
    elif mode in ("long-cl", "long-cl-ns"):
        E["input"], E["seekable"] = body, mode == "long-cl"
        E["hdrs"].insert(pos, ("CONTENT_LENGTH", str(len(body) + rng.randrange(1, 4))))
    elif mode == "junk-cl":
        E["input"], E["seekable"] = body, True
        E["hdrs"].insert(pos, ("CONTENT_LENGTH", rng.choice(["abc", "", " 3 ", "+2", "1_0", "0x10", "3.0", "1__0", "_1", "1_", "-0", "00", "007",
                                                           "12abc", "3,3", "- 1", "+"])))
    return E


# --------------------------------------------------------------------------- independent serialiser (reference)
SAFE = set(b"ABCDEFGHIJKLMNOPQRSTUVWXYZabcdefghijklmnopqrstuvwxyz0123456789_.-~/!$&'()*+,;=:@")


def ref_quote(bs):
    return "".join(chr(c) if c in SAFE else "%%%02X" % c for c in bs)


def ref_target(script, path, qs):
    return ref_quote(script) + ref_quote(path) + ("?" + qs if qs else "")


def ref_wire_target(script, path, qs):
    """a request line cannot go without a target: an empty one is written "/" (RFC 7230 5.3.1)"""
    return ref_target(script, path, qs) or "/"


def ref_head(method, target, proto, hdr_items):
    lines = ["%s %s %s" % (method, target, proto)] + ["%s: %s" % kv for kv in sorted(hdr_items)]
    return "\r\n".join(lines).encode("latin-1")


def ref_header_name(key):
    special = {"CONTENT_TYPE": "Content-Type", "CONTENT_LENGTH": "Content-Length", "HTTP_CONTENT_TYPE": "Content_Type",
               "HTTP_CONTENT_LENGTH": "Content_Length"}
    if key in special:
        return special[key]
    out, up = [], True
    for ch in key[5:].replace("_", "-"):
        if ch.isalpha():
            out.append(ch.upper() if up else ch.lower())
            up = False
        else:
            out.append(ch)
            up = True
    return "".join(out)


# --------------------------------------------------------------------------- oracle: request round trip
def rt_request_oracle(E, extra=b"X", file_kind="bytesio"):
    """The property on the real implementation for the request described by E (inside the
    statement's domain: http, Host header, tight printable-ASCII values, consistent body).
    Returns None or (key, message)."""
    from webob import Request
    req = build_request(E)
    body = E["input"]
    method, proto = E["method"], E["proto"]
    h1 = dict(req.headers)
    url1 = req.url
    exp_items = [(ref_header_name(k), v) for k, v in E["hdrs"]]
    if dict(exp_items) != h1:
        return ("request-roundtrip:headers-view", "req.headers shows %r for environ entries %r" % (h1, E["hdrs"]))
    host = dict(E["hdrs"])["HTTP_HOST"]
    hh = host
    if ":" in host and not host.endswith("]"):
        a, p = host.rsplit(":", 1)
        hh = a if p == "80" else host
    exp_url = "http://" + hh + ref_target(E["script"], E["path"], E["qs"])
    if url1 != exp_url:
        return ("request-roundtrip:url", "req.url is %r, expected %r" % (url1, exp_url))
    # skip_body first, on a request of its own
    head_only = build_request(E).as_bytes(skip_body=True)
    b = req.as_bytes()
    # --- independent framing of the serialisation
    items = list(exp_items)
    target = ref_wire_target(E["script"], E["path"], E["qs"])
    no_target = not ref_target(E["script"], E["path"], E["qs"])
    exp_head_nocl = ref_head(method, target, proto, exp_items)
    if "Content-Length" not in dict(items):
        # reading the body may add a (truthful) Content-Length; with a body it must be there
        items.append(("Content-Length", str(len(body))))
    exp_head = ref_head(method, target, proto, items)
    if not body and b == exp_head_nocl:
        exp_head = exp_head_nocl
    exp = exp_head + (b"\r\n\r\n" + body if body else b"")
    if b != exp:
        if no_target:
            return (K_EMPTY, "as_bytes() of a request with an empty path is %r: its request line has no target, expected %r" % (b, exp))
        return ("request-roundtrip:as_bytes-form", "as_bytes() is %r, expected %r" % (b, exp))
    # as_bytes(skip_body) omits only the body (a Content-Length that reading the body adds may be absent)
    if head_only not in (exp_head, exp_head_nocl):
        return ("request-roundtrip:skip_body", "as_bytes(skip_body=True) is %r, expected %r" % (head_only, exp_head))
    if req.as_bytes(skip_body=True) != exp_head:
        return ("request-roundtrip:skip_body", "as_bytes(skip_body=True) after as_bytes() is not the head %r" % exp_head)
    if len(body) > 2:
        if req.as_bytes(skip_body=len(body)) != exp:
            return ("request-roundtrip:skip_body", "as_bytes(skip_body=len(body)) differs from as_bytes()")
        mk = req.as_bytes(skip_body=len(body) - 1)
        if mk != exp_head + b"\r\n\r\n" + ("<body skipped (len=%d)>" % len(body)).encode():
            return ("request-roundtrip:skip_body", "as_bytes(skip_body=len(body)-1) is %r" % mk)
    # --- parse it back
    try:
        r2 = type(req).from_bytes(b)
    except Exception as e:  # noqa
        return ("request-roundtrip:from_bytes-raises", "from_bytes(as_bytes()) raised %s: %s; bytes %r" % (exc_name(e), e, b))
    msg = compare_requests(E, req, r2, url1, h1, body, "from_bytes")
    if msg:
        return msg
    if type(r2) is not type(req):
        return ("request-roundtrip:class", "from_bytes of %s returned a %s" % (type(req).__name__, type(r2).__name__))
    # --- from_file: consumes exactly the serialised bytes
    f = make_file(file_kind, b + extra)
    try:
        r3 = type(req).from_file(f)
    except Exception as e:  # noqa
        if body or not extra:
            return ("request-roundtrip:from_file-raises", "from_file raised %s: %s on %r" % (exc_name(e), e, b + extra))
        r3 = None
    if body or not extra:
        rest = f.read()
        if rest != extra:
            return ("request-roundtrip:consumed", "from_file left %r in the file, expected %r; stream %r" % (rest, extra, b + extra))
        msg = compare_requests(E, req, r3, url1, h1, body, "from_file")
        if msg:
            return msg
    # --- trailing data after a non-empty body is an error
    if body and extra:
        try:
            type(req).from_bytes(b + extra)
            return ("request-roundtrip:trailing-data-accepted", "from_bytes accepted %r after the %d-byte body" % (extra, len(body)))
        except ValueError:
            pass
        except Exception as e:  # noqa
            return ("request-roundtrip:trailing-data-error", "from_bytes raised %s instead of ValueError" % exc_name(e))
    return None


def make_file(kind, data):
    if kind == "bytesio":
        return io.BytesIO(data)
    if kind == "buffered":
        return io.BufferedReader(io.BytesIO(data), buffer_size=7)
    if kind == "minimal":
        return MinimalFile(io.BytesIO(data))
    if kind == "tempfile":
        f = tempfile.TemporaryFile()
        f.write(data)
        f.seek(0)
        return f
    raise ValueError(kind)


def no_target(E):
    return "path" in E and not ref_target(E["script"], E["path"], E["qs"])


def compare_requests(E, req, r2, url1, h1, body, how):
    if no_target(E):
        url1 = url1 + "/"      # the same URL (RFC 3986 6.2.3) in the only spelling a request line can carry
    if r2.method != E["method"]:
        if r2.method == E["method"].upper():
            return (K_METHOD, "%s: method %r became %r" % (how, E["method"], r2.method))
        return ("request-roundtrip:method", "%s: method %r became %r" % (how, E["method"], r2.method))
    if r2.url != url1:
        return ("request-roundtrip:url", "%s: url %r became %r" % (how, url1, r2.url))
    if r2.http_version != E["proto"]:
        return ("request-roundtrip:version", "%s: http_version %r became %r" % (how, E["proto"], r2.http_version))
    h2 = dict(r2.headers)
    if len(h2) != len(list(r2.headers.items())):
        return ("request-roundtrip:headers", "%s: duplicate header names after re-parse" % how)
    a = {k: v for k, v in h1.items() if k != "Content-Length"}
    c = {k: v for k, v in h2.items() if k != "Content-Length"}
    if a != c:
        return ("request-roundtrip:headers", "%s: headers %r became %r" % (how, a, c))
    cl2 = h2.get("Content-Length")
    if "Content-Length" in h1:
        if cl2 != h1["Content-Length"]:
            return ("request-roundtrip:headers", "%s: Content-Length %r became %r" % (how, h1["Content-Length"], cl2))
    elif cl2 is not None and cl2 != str(len(body)):
        return ("request-roundtrip:headers", "%s: added Content-Length %r for a %d-byte body" % (how, cl2, len(body)))
    if r2.body != body:
        return ("request-roundtrip:body", "%s: body %r became %r" % (how, body, r2.body))
    return None


def rt_request_text_oracle(E):
    """text file objects: as_text() through from_file(StringIO / TextIOWrapper) and from_text.
    Only for bodies that are valid UTF-8 (a text file cannot carry anything else)."""
    from webob import Request
    body = E["input"]
    try:
        body.decode("utf-8")
    except UnicodeDecodeError:
        return None
    req = build_request(E)
    h1 = dict(req.headers)
    url1 = req.url
    no_target = not ref_target(E["script"], E["path"], E["qs"])
    try:
        t = req.as_text()
        Request0 = type(req)
        Request0.from_bytes(req.as_bytes())
    except Exception:  # noqa
        return None                # (the binary oracle reports it)
    req = build_request(E)
    t = req.as_text()
    if t.encode("utf-8") != req.as_bytes():
        return ("request-roundtrip:as_text", "as_text() is not the utf-8 decoding of as_bytes()")
    Request = type(req)
    if body:
        # a text file that goes on after the request: Content-Length counts BYTES of the encoded text
        for trailing in TEXT_TRAILERS:
            f = io.StringIO(t + trailing)
            try:
                r2 = Request.from_file(f)
            except Exception as e:  # noqa
                return ("request-roundtrip:text-raises", "from_file(StringIO) raised %s: %s on %r" % (exc_name(e), e, t + trailing))
            rest = f.read()
            if r2.body != body or rest != trailing:
                key = K_TEXTLEN if not body.isascii() else "request-roundtrip:consumed"
                return (key, "from_file(StringIO(as_text() + %r)): body %r (expected %r), %r left in the file" % (trailing, r2.body, body, rest))
    for how, mk in (("from_file(StringIO)", lambda: Request.from_file(io.StringIO(t))),
                    ("from_file(TextIOWrapper)", lambda: Request.from_file(io.TextIOWrapper(io.BytesIO(t.encode("utf-8")),
                                                                                          encoding="utf-8", newline=""))),
                    ("from_file(minimal text file)", lambda: Request.from_file(MinimalFile(io.StringIO(t)))),
                    ("from_text", lambda: Request.from_text(t))):
        try:
            r2 = mk()
        except Exception as e:  # noqa
            return ("request-roundtrip:text-raises", "%s raised %s: %s on %r" % (how, exc_name(e), e, t))
        msg = compare_requests(E, req, r2, url1, h1, body, how)
        if msg:
            return msg
    return None


# =========================================================================== responses
STATUSES = ["200 OK", "404 Not Found", "299 Very  Custom", "500 Internal Server Error", "204 No Content", "304 Not Modified",
            "201 Created", "600 X", "200 caf\xe9", "418 I'm a teapot", "200 OK: fine, really; yes"]
RNAMES = ["Content-Type", "X-Foo", "Set-Cookie", "Set-Cookie", "x-lower", "X_Y", "X.Z", "ETag", "Cache-Control", "Vary", "X-1", "Content-MD5",
          "Location", "WWW-Authenticate"]
LCH = "".join(chr(c) for c in range(0xA0, 0x100))


def rand_rvalue(rng, latin=True):
    v = rand_value(rng)
    if latin and rng.random() < 0.4:
        n = rng.randrange(1, 5)
        w = "".join(rng.choice(LCH) for _ in range(n))
        v = rng.choice([v + w, w + v, w, v + " " + w, "caf\xe9", "\xa0" + v, v + "\xa0", "na\xefve; q=\xbd"])
    return v.strip("".join(ASCII_WS))


def rand_resp(rng, latin=True, textual=False):
    """(status, headerlist, body) with a declared length"""
    status = rng.choice(STATUSES if latin else [s for s in STATUSES if s.isascii()])
    if textual:
        t = rng.choice(["", "x", "h\xe9llo w\xf6rld", "\r\n\r\nX: y\r\n", "a\nb", "€uro \U0001f600", "line\r\n", "  padded  ", "\xa0",
                        "done \U0001f389\U0001f389\U0001f389"]) if rng.random() < 0.5 else rand_text(rng)
        body = t.encode("utf-8")
    else:
        body = rand_body(rng)
    hl = []
    for _ in range(rng.choice([0, 1, 2, 3, 4, 6])):
        n = rng.choice(RNAMES)
        if n == "Content-Type":
            if any(k == n for k, _ in hl):
                continue
            v = rng.choice(["text/plain", "text/html; charset=UTF-8", "text/plain; charset=utf-8", "application/octet-stream"]
                           if not textual else ["text/plain", "text/html; charset=UTF-8", "text/plain; charset=utf-8"])
        elif n == "Content-MD5":
            v = "kAFQmDzST7DWlj99KOF/cg=="
        else:
            v = rand_rvalue(rng, latin)
        hl.append((n, v))
    cl = (rng.choice(["Content-Length", "Content-Length", "content-length", "CONTENT-LENGTH"]), str(len(body)))
    hl.insert(rng.randrange(len(hl) + 1), cl)
    return status, hl, body


def resp_wire(status, hl, body):
    """what a WSGI server writes for start_response(status, hl) + body"""
    return ("HTTP/1.1 %s\r\n" % status).encode("latin-1") + \
        b"".join(("%s: %s\r\n" % kv).encode("latin-1") for kv in hl) + b"\r\n" + body


def norm_cl(hl, body):
    return [(k, v) for k, v in hl if k.lower() != "content-length"] + [("Content-Length", str(len(body)))]


def classify_resp_headers(got, want, text):
    """a specific key for the header differences this property already knows"""
    keys = []
    w = list(want)
    if not any(k.lower() == "content-md5" for k, _ in got) and any(k.lower() == "content-md5" for k, _ in w):
        w = [kv for kv in w if kv[0].lower() != "content-md5"]
        keys.append(K_MD5)
    if w == got:
        return keys[0]
    if text and len(got) == len(w) and all(g[0] == x[0] for g, x in zip(got, w)):
        if all(g[1] == x[1] or (g[1] == x[1].strip() and g[1] != x[1].strip("".join(ASCII_WS))) for g, x in zip(got, w)):
            keys.append(K_NBSP)
            return keys[0]
    return "response-roundtrip:headers"


def check_resp(r2, rest, status, hl, body, trailing, how, text=False):
    if r2.status != status:
        if text and r2.status == status.strip() and status.strip() != status.strip("".join(ASCII_WS)):
            return (K_NBSP, "%s: status %r became %r" % (how, status, r2.status))
        return ("response-roundtrip:status", "%s: status %r became %r" % (how, status, r2.status))
    want = norm_cl(hl, body)
    got = [(k, v) for k, v in r2.headerlist]
    if got != want:
        return (classify_resp_headers(got, want, text), "%s: headers %r became %r" % (how, want, got))
    if r2.body != body:
        return ("response-roundtrip:body", "%s: body %r became %r" % (how, body, r2.body))
    if rest != trailing:
        return ("response-roundtrip:consumed", "%s: %r left in the file, expected %r" % (how, rest, trailing))
    return None


def rt_response_oracle(status, hl, body, trailing=b"", file_kind="bytesio"):
    """Response.from_file applied to the wire form of (status, headerlist, body)."""
    from webob import Response
    wire = resp_wire(status, hl, body)
    f = make_file(file_kind, wire + trailing)
    try:
        r2 = Response.from_file(f)
    except Exception as e:  # noqa
        return ("response-roundtrip:from_file-raises", "from_file raised %s: %s on %r" % (exc_name(e), e, wire))
    msg = check_resp(r2, f.read(), status, hl, body, trailing, "from_file(wire)")
    if msg:
        return msg
    # the same response object serialised by webob's own application call
    resp = Response(status=status, headerlist=list(hl), app_iter=[body])
    if resp.status != status or list(resp.headerlist) != list(hl) or resp.body != body:
        return ("response-roundtrip:constructor", "Response(status, headerlist, app_iter) shows %r %r %r" % (resp.status, resp.headerlist, resp.body))
    return None


def rt_response_str_oracle(status, hl, body):
    """str(resp) -> text file / encoded binary file -> from_file (body valid UTF-8, no other charset)"""
    from webob import Response
    resp = Response(status=status, headerlist=list(hl), app_iter=[body])
    s = str(resp)
    t = body.decode("utf-8")
    exp = "\r\n".join([status] + ["%s: %s" % kv for kv in hl] + (["", t] if body else []))
    if s != exp:
        return ("response-roundtrip:str-form", "str(resp) is %r, expected %r" % (s, exp))
    if body:
        for trailing in TEXT_TRAILERS:
            f = io.StringIO(s + trailing)
            try:
                r2 = Response.from_file(f)
            except Exception as e:  # noqa
                return ("response-roundtrip:from_file-raises", "from_file(StringIO(str + %r)) raised %s: %s" % (trailing, exc_name(e), e))
            rest = f.read()
            if r2.body != body or rest != trailing:
                key = K_TEXTLEN if not body.isascii() else "response-roundtrip:consumed"
                return (key, "from_file(StringIO(str(resp) + %r)): body %r (expected %r), %r left in the file" % (trailing, r2.body, body, rest))
    files = [("from_file(StringIO(str))", lambda: io.StringIO(s), True)]
    if s.isascii():
        files.append(("from_file(BytesIO(str))", lambda: io.BytesIO(s.encode("ascii")), False))
    elif all(ord(c) < 128 for kv in hl for x in kv for c in x) and status.isascii():
        files.append(("from_file(BytesIO(str.encode(utf-8)))", lambda: io.BytesIO(s.encode("utf-8")), False))
        files.append(("from_file(TextIOWrapper)", lambda: io.TextIOWrapper(io.BytesIO(s.encode("utf-8")), encoding="utf-8", newline=""), True))
    for how, mk, text in files:
        f = mk()
        try:
            r2 = Response.from_file(f)
        except Exception as e:  # noqa
            return ("response-roundtrip:from_file-raises", "%s raised %s: %s on %r" % (how, exc_name(e), e, s))
        msg = check_resp(r2, f.read(), status, hl, body, "" if text else b"", how, text)
        if msg:
            return msg
    return None


def cresp(status, hl, body):
    return "(mkResp %s %s %s)" % (cstr(status), citems(hl), cstr(body))


def observe_resp_from_file(text, stream):
    """[[status, headerlist, body], rest] or Err"""
    from webob import Response
    f = io.StringIO(stream) if text else io.BytesIO(stream)
    try:
        r = Response.from_file(f)
    except Exception as e:  # noqa
        return Err(exc_name(e))
    rest = f.read()
    return [[r.status, [[k, v] for k, v in r.headerlist], r.body], rest]


# =========================================================================== sub-requests
class ExcA(Exception):
    pass


class ExcTwoArgs(Exception):
    def __init__(self, a, b):
        super().__init__(a, b)
        self.a, self.b = a, b


def make_exceptions():
    return [RuntimeError("boom"), ExcA("a"), ExcTwoArgs(1, "two"), UnicodeDecodeError("utf-8", b"\xff", 0, 1, "invalid start byte"),
            KeyError("k"), OSError(2, "No such file")]


N_EXC = 6


class Log:
    def __init__(self):
        self.closes = 0
        self.iterable = None


def make_app(script, excs, log):
    """A real WSGI application behaving as `script` = {"call": [ev], "items": [item], "close": bool, "shape": ...}"""
    state = {"write": None}

    def do(ev, start_response):
        if ev[0] == "start":
            exc_info = None
            if ev[3] is not None:
                try:
                    raise excs[ev[3]]
                except BaseException:  # noqa
                    exc_info = sys.exc_info()
            state["write"] = start_response(ev[1], [tuple(p) for p in ev[2]], exc_info) if exc_info else \
                start_response(ev[1], [tuple(p) for p in ev[2]])
        elif ev[0] == "write":
            state["write"](ev[1])
        elif ev[0] == "raise":
            raise excs[ev[1]]

    def produce(start_response):
        for it in script["items"]:
            if it[0] == "yield":
                yield it[1]
            else:
                do(it[1], start_response)

    class Iter:
        def __init__(self, start_response):
            self.g = produce(start_response)

        def __iter__(self):
            return self

        def __next__(self):
            return next(self.g)

    class ClosingIter(Iter):
        def close(self):
            log.closes += 1

    shape = script["shape"]
    if script.get("sr_kw"):
        # start_response(status, headers, exc_info=...) by keyword
        do_pos = do

        def do(ev, start_response):  # noqa
            return do_pos(ev, lambda st, h, ei=None: start_response(st, h, exc_info=ei))
    if shape == "generator":
        def app(environ, start_response):          # a generator function: nothing runs before the first next()
            for ev in script["call"]:
                do(ev, start_response)
            yield from produce(start_response)
        return wrap_app(app, script.get("wrap"))

    def app(environ, start_response):
        for ev in script["call"]:
            do(ev, start_response)
        if shape == "list":
            r = [it[1] for it in script["items"]]
        elif shape == "tuple":
            r = tuple(it[1] for it in script["items"])
        elif shape == "listiter":
            r = iter([it[1] for it in script["items"]])         # an iterator without close()
        elif shape == "deque":
            import collections
            r = collections.deque(it[1] for it in script["items"])
        else:
            r = (ClosingIter if script["close"] else Iter)(start_response)
        log.iterable = r
        return r
    return wrap_app(app, script.get("wrap"))


def wrap_app(app, how):
    """the shapes a WSGI application comes in: function, callable object, bound method, functools.partial"""
    if how == "object":
        class App:
            def __call__(self, environ, start_response):
                return app(environ, start_response)
        return App()
    if how == "method":
        class Holder:
            def handle(self, environ, start_response):
                return app(environ, start_response)
        return Holder().handle
    if how == "partial":
        import functools
        return functools.partial(lambda extra, environ, start_response: app(environ, start_response), "x")
    return app


def call_sub(req, app, catch, via, style):
    """the ways of passing catch_exc_info: keyword bool, positional, truthy/falsy non-bool, omitted when false"""
    f = getattr(req, via)
    if style == "positional":
        return f(app, catch)
    if style == "int":
        return f(app, catch_exc_info=1 if catch else 0)
    if style == "omit" and not catch:
        return f(app)
    if style == "object":
        return f(app, catch_exc_info=[0] if catch else None)
    return f(app, catch_exc_info=catch)


def model_script(script):
    """the script as the model sees it (a generator function runs its `call` part lazily)"""
    if script["shape"] == "generator":
        return {"call": [], "items": [("ev", e) for e in script["call"]] + list(script["items"]), "close": True}
    return {"call": script["call"], "items": script["items"], "close": script["close"] and script["shape"] == "iter"}
    # (list / tuple / listiter / deque: plain iterables of chunks without close())


def cev(e):
    if e[0] == "start":
        return "(EStart %s %s %s)" % (cstr(e[1]), citems(e[2]), copt(None if e[3] is None else "%d%%N" % e[3]))
    if e[0] == "write":
        return "(EWrite %s)" % cstr(e[1])
    return "(ERaise %d%%N)" % e[1]


def capp(script):
    m = model_script(script)
    items = clist(("(IYield %s)" % cstr(i[1])) if i[0] == "yield" else ("(IEv %s)" % cev(i[1])) for i in m["items"])
    return "(mkApp %s %s %s)" % (clist(cev(e) for e in m["call"]), items, cbool(m["close"]))


def exc_id(e, excs):
    for i, x in enumerate(excs):
        if x is e:
            return i
    return -1


def observe_call_application(script, catch, req=None):
    from webob import Request
    excs, log = make_exceptions(), Log()
    app = make_app(script, excs, log)
    req = req if req is not None else Request.blank("/")
    try:
        res = req.call_application(app, catch_exc_info=catch)
    except IndexError:
        return ["failed", Err("IndexError"), log.closes > 0]
    except BaseException as e:  # noqa
        return ["raised", exc_id(e, excs), log.closes > 0]
    status, headers, app_iter = res[0], res[1], res[2]
    exc = None
    if catch and res[3] is not None:
        exc = exc_id(res[3][1], excs)
    closed = log.closes > 0
    own = app_iter is log.iterable and script["shape"] != "generator"
    dx = None
    chunks = []
    try:
        for c in app_iter:
            chunks.append(c)
    except BaseException as e:  # noqa
        dx = exc_id(e, excs)
    return ["returned", status, [list(p) for p in headers], chunks, exc, closed, own, dx]


def observe_send(script, catch, req=None):
    from webob import Request
    excs, log = make_exceptions(), Log()
    app = make_app(script, excs, log)
    req = req if req is not None else Request.blank("/")
    try:
        resp = req.get_response(app, catch_exc_info=catch)
        status, hl = resp.status, [list(p) for p in resp.headerlist]
        body = resp.body
    except IndexError:
        return ["failed", Err("IndexError"), log.closes > 0]
    except BaseException as e:  # noqa
        return ["raised", exc_id(e, excs), log.closes > 0]
    return ["sent", status, hl, body, log.closes > 0]


def reference_server(script, catch):
    """What a conforming WSGI server delivers for the script: ("ok", status, headers, body, exc) or
    ("raised", exception id, phase)."""
    status = headers = exc = None
    body = b""
    events = [("call", e) for e in script["call"]] + [("iter", i) for i in script["items"]]
    for phase, x in events:
        e = x if phase == "call" else (x[1] if x[0] == "ev" else None)
        if e is None:
            body += x[1]
        elif e[0] == "start":
            if e[3] is not None and not catch:
                return ("raised", e[3], phase)
            status, headers, exc = e[1], [tuple(p) for p in e[2]], e[3]
        elif e[0] == "write":
            body += e[1]
        else:
            return ("raised", e[1], phase)
    return ("ok", status, headers, body, exc)


def declares_length(script):
    evs = list(script["call"]) + [i[1] for i in script["items"] if i[0] == "ev"]
    return any(e[0] == "start" and any(k.lower() == "content-length" for k, _ in e[2]) for e in evs)


def lazy_shape(script):
    """start_response called while the application is called, nothing written then, and the iterable
    does more than yield (the known-finding region)"""
    if script["shape"] == "generator":
        return False
    started = any(e[0] == "start" for e in script["call"])
    wrote = any(e[0] == "write" for e in script["call"])
    return started and not wrote and any(i[0] == "ev" for i in script["items"])


def call_application_oracle(script, catch, via, req=None):
    """None or (key, message).  via: "call_application" | "get_response".  req: an existing Request to reuse."""
    from webob import Request
    excs, log = make_exceptions(), Log()
    app = make_app(script, excs, log)
    req = req if req is not None else Request.blank("/sub?x=1")
    ref = reference_server(script, catch)
    has_close = script["shape"] == "iter" and script["close"]
    webob_drains = True          # is webob the one iterating when an exception comes out?
    try:
        style = script.get("catch_style")
        if via == "call_application":
            res = call_sub(req, app, catch, "call_application", style)
            status, headers, app_iter = res[0], list(res[1]), res[2]
            exc_info = res[3] if catch else None
            if len(res) != (4 if catch else 3):
                return ("call_application:tuple-shape", "returned a %d-tuple with catch_exc_info=%r" % (len(res), catch))
            consumed = app_iter is not log.iterable or script["shape"] == "generator"
            if not consumed and type(app_iter) is not type(log.iterable):
                return ("call_application:iterable-replaced", "the application's %s came back as %s" % (type(log.iterable), type(app_iter)))
            if consumed and has_close and log.closes != 1:
                return ("call_application:close", "webob consumed the iterable but called close() %d times" % log.closes)
            if not consumed and log.closes != 0:
                return ("call_application:close", "the application's iterable was returned unconsumed but already closed")
            webob_drains = False
            try:
                body = b"".join(app_iter)
            finally:
                if hasattr(app_iter, "close"):
                    app_iter.close()
        else:
            resp = call_sub(req, app, catch, via, style)          # via: "get_response" or its other name "send"
            if type(resp) is not req.ResponseClass:
                return ("call_application:response-class", "%s returned a %s, ResponseClass is %s" % (
                    via, type(resp).__name__, req.ResponseClass.__name__))
            status, headers, exc_info = resp.status, list(resp.headerlist), None
            body = resp.body
    except BaseException as e:  # noqa
        if ref[0] != "raised":
            if isinstance(e, IndexError) and ref[1] is None:
                return None                    # the application never called start_response: nothing to return
            if isinstance(e, AssertionError) and lazy_shape(script) and via != "call_application":
                return (K_LAZY, "get_response: %s (write() called from the iterable after an eager start_response is lost)" % e)
            return ("call_application:unexpected-exception", "%s raised %s: %s; the application did not fail" % (via, exc_name(e), e))
        want = excs[ref[1]]
        if e is not want:
            return (K_EXC, "%s raised %r, the application's exception is %r (catch_exc_info=%r)" % (via, e, want, catch))
        if webob_drains and ref[2] == "iter" and has_close and log.closes != 1:
            return ("call_application:close", "exception during iteration: close() called %d times" % log.closes)
        return None
    if ref[0] == "raised":
        return ("call_application:exception-swallowed", "%s returned %r although the application raised / passed exc_info #%d" % (via, status, ref[1]))
    _, rstatus, rheaders, rbody, rexc = ref
    if rstatus is None:
        return ("call_application:no-start_response", "returned %r although start_response was never called" % (status,))
    lazy = " (the iterable calls write()/start_response after an eager start_response; webob hands it back unconsumed)"
    if status != rstatus:
        if lazy_shape(script):
            return (K_LAZY, "%s status %r, the application sent %r%s" % (via, status, rstatus, lazy))
        return ("call_application:status", "%s status %r, the application sent %r" % (via, status, rstatus))
    if [tuple(p) for p in headers] != rheaders:
        if lazy_shape(script):
            return (K_LAZY, "%s headers %r, the application sent %r%s" % (via, headers, rheaders, lazy))
        return ("call_application:headers", "%s headers %r, the application sent %r" % (via, headers, rheaders))
    if body != rbody:
        if lazy_shape(script):
            return (K_LAZY, "%s body %r, the application produced %r%s" % (via, body, rbody, lazy))
        return ("call_application:body", "%s body %r, the application produced %r" % (via, body, rbody))
    if catch and via == "call_application":
        got = None if exc_info is None else exc_info[1]
        want = None if rexc is None else excs[rexc]
        if got is not want:
            if lazy_shape(script):
                return (K_LAZY, "captured exc_info %r, the application passed %r%s" % (got, want, lazy))
            return ("call_application:exc_info-capture", "captured exc_info %r, the application passed %r" % (got, want))
    if has_close and log.closes != 1:
        return ("call_application:close", "%s: close() called %d times in total" % (via, log.closes))
    return None


# --------------------------------------------------------------------------- generators (scripts)
CHUNKS = [b"", b"a", b"bc", b"\r\n", b"\xff", b"Hi!", b"0"]
SHEADERS = [[], [("Content-Type", "text/plain")], [("X-A", "1"), ("x-a", "2")], [("Set-Cookie", "a=1"), ("Set-Cookie", "b=2")],
            [("X-L", "caf\xe9")], [("Content-Type", "text/html; charset=UTF-8"), ("X-B", "a: b, c; d  e")]]
SSTATUS = ["200 OK", "404 Not Found", "500 Internal Server Error", "299 Custom  Reason", "204 No Content"]


def rand_ev(rng, started, kinds):
    """a valid WSGI event: write only after start_response, a second start_response only with exc_info"""
    k = rng.choice(kinds)
    if k == "write" and started:
        return ("write", rng.choice(CHUNKS))
    if k == "raise":
        return ("raise", rng.randrange(N_EXC))
    exc = rng.randrange(N_EXC) if (started or rng.random() < 0.15) else None
    return ("start", rng.choice(SSTATUS), rng.choice(SHEADERS), exc)


def rand_script(rng, lazy_ok=True):
    shape = rng.choice(["list", "tuple", "iter", "iter", "iter", "generator", "listiter", "deque"])
    call, items = [], []
    started = False
    if rng.random() < 0.75:
        for _ in range(rng.choice([1, 1, 1, 2, 3])):
            e = rand_ev(rng, started, ["start", "write", "write", "write", "start", "raise"] if started else ["start"] * 9 + ["raise"])
            if e[0] == "start":
                started = True
            call.append(e)
    wrote = any(e[0] == "write" for e in call)
    unconsumed = started and not wrote and shape != "generator"       # webob hands the iterable back
    for _ in range(rng.choice([0, 1, 2, 3, 5])):
        if shape in ("list", "tuple", "listiter", "deque") or rng.random() < 0.6:
            items.append(("yield", rng.choice(CHUNKS)))
        elif unconsumed:
            # events inside an iterable that webob does not consume: the known-finding region (write) or a late raise
            if lazy_ok:
                items.append(("ev", rand_ev(rng, True, ["write", "write", "raise", "start"])))
            else:
                items.append(("ev", ("raise", rng.randrange(N_EXC))) if rng.random() < 0.3 else ("yield", rng.choice(CHUNKS)))
        else:
            e = rand_ev(rng, started, ["start", "write", "write", "write", "raise"] if started else ["start"] * 9 + ["raise"])
            if e[0] == "start":
                started = True
            items.append(("ev", e))
    if not started and shape in ("iter", "generator") and rng.random() < 0.9:
        items.insert(0, ("ev", ("start", rng.choice(SSTATUS), rng.choice(SHEADERS), None)))
    s = {"call": call, "items": items, "close": rng.random() < 0.6, "shape": shape,
         "wrap": rng.choice([None, None, "object", "method", "partial"]), "sr_kw": rng.random() < 0.3,
         "catch_style": rng.choice([None, None, "positional", "int", "omit", "object"])}
    if rng.random() < 0.3:
        declare_length(s)
    return s


def declare_length(script):
    """give the last plain start_response a truthful Content-Length"""
    total = sum(len(e[1]) for e in script["call"] if e[0] == "write") + \
        sum(len(i[1]) if i[0] == "yield" else (len(i[1][1]) if i[1][0] == "write" else 0) for i in script["items"])
    for where in (script["items"][::-1], script["call"][::-1]):
        for n, x in enumerate(where):
            e = x[1] if (x[0] == "ev") else x
            if e[0] == "start":
                new = ("start", e[1], list(e[2]) + [("Content-Length", str(total))], e[3])
                idx = (script["items"] if where is not None and x in script["items"] else script["call"])
                if x[0] == "ev":
                    script["items"][script["items"].index(x)] = ("ev", new)
                else:
                    script["call"][script["call"].index(x)] = new
                return


def jscript(s):
    def jev(e):
        if e[0] == "start":
            return ["start", e[1], [list(p) for p in e[2]], e[3]]
        if e[0] == "write":
            return ["write", e[1].hex()]
        return ["raise", e[1]]
    return {"call": [jev(e) for e in s["call"]], "close": s["close"], "shape": s["shape"],
            "wrap": s.get("wrap"), "sr_kw": bool(s.get("sr_kw")), "catch_style": s.get("catch_style"),
            "items": [["yield", i[1].hex()] if i[0] == "yield" else ["ev", jev(i[1])] for i in s["items"]]}


def unjscript(d):
    def uev(e):
        if e[0] == "start":
            return ("start", e[1], [tuple(p) for p in e[2]], e[3])
        if e[0] == "write":
            return ("write", bytes.fromhex(e[1]))
        return ("raise", e[1])
    return {"call": [uev(e) for e in d["call"]], "close": d["close"], "shape": d["shape"],
            "wrap": d.get("wrap"), "sr_kw": bool(d.get("sr_kw")), "catch_style": d.get("catch_style"),
            "items": [("yield", bytes.fromhex(i[1])) if i[0] == "yield" else ("ev", uev(i[1])) for i in d["items"]]}


# =========================================================================== histories on ONE long-lived object
SUB_BODY = b"a=1&b=\xff\r\n\r\nrest"


def new_sub_request():
    from webob import Request
    r = Request.blank("/sub/p%C3%A9?x=1", method="POST", headers={"X-Probe": "a: b, c"})
    r.body = SUB_BODY
    return r


def echo_app(environ, start_response):
    """reads the request body it is given and sends it back"""
    if environ.get("CONTENT_LENGTH") is None and environ.get("wsgi.input_terminated"):
        data = environ["wsgi.input"].read()
    else:
        data = environ["wsgi.input"].read(int(environ.get("CONTENT_LENGTH") or 0))
    start_response("200 OK", [("Content-Length", str(len(data)))])
    return [data]


def rand_sub_history(rng, n):
    steps = []
    for _ in range(n):
        t = rng.random()
        if t < 0.6:
            s = rand_script(rng, lazy_ok=False)
            steps.append(["script", jscript(s), rng.random() < 0.5, rng.choice(["call_application", "get_response"])])
        elif t < 0.75:
            steps.append(["echo", rng.choice(["call_application", "get_response"])])
        elif t < 0.85:
            steps.append(["as_bytes", rng.choice([False, True, 3, 500])])
        elif t < 0.93:
            steps.append(["body"])
        else:
            steps.append(["response-app", rng.choice(["GET", "HEAD"])])
    return steps


def sub_history_step(req, step, resp_app, exp_bytes):
    from webob import Request
    kind = step[0]
    if kind == "script":
        return call_application_oracle(unjscript(step[1]), step[2], step[3], req=req)
    if kind == "echo":
        if step[1] == "call_application":
            st, h, it = req.call_application(echo_app)
            got = b"".join(it)
        else:
            got = req.get_response(echo_app).body
        if got != SUB_BODY:
            return ("call_application:request-body-not-rewound", "the application read %r from wsgi.input, the request body is %r" % (got, SUB_BODY))
        return None
    if kind == "as_bytes":
        sk = step[1]
        got = req.as_bytes(skip_body=sk)
        head = exp_bytes.split(b"\r\n\r\n", 1)[0]
        want = head if sk is True else (exp_bytes if sk is False or len(SUB_BODY) <= sk else
                                        head + b"\r\n\r\n" + ("<body skipped (len=%d)>" % len(SUB_BODY)).encode())
        if got != want:
            return ("request-roundtrip:as_bytes-form", "as_bytes(skip_body=%r) is %r, expected %r" % (sk, got, want))
        return None
    if kind == "body":
        if req.body != SUB_BODY:
            return ("request-roundtrip:body", "req.body is %r, expected %r" % (req.body, SUB_BODY))
        return None
    if kind == "response-app":
        # a long-lived Response object used as the WSGI application, for GET and HEAD alternately
        r2 = req.copy()
        r2.method = step[1]
        got = r2.get_response(resp_app)
        want = b"" if step[1] == "HEAD" else b"long-lived body"
        if got.status != "200 OK" or got.body != want or got.headers.get("X-Long") != "lived":
            return ("call_application:response-app", "%s through a long-lived Response app gave %r %r" % (step[1], got.status, got.body))
        return None
    raise ValueError(kind)


def sub_request_history_oracle(steps):
    """ONE Request object (and one Response-as-app) serves every step; each answer must be the one a
    brand-new request gives, and the request itself must be unchanged at the end."""
    from webob import Response
    req = new_sub_request()
    exp_bytes = new_sub_request().as_bytes()
    obs0 = observe_req(new_sub_request())
    resp_app = Response(body=b"long-lived body", headerlist=[("X-Long", "lived"), ("Content-Type", "text/plain")])
    for i, step in enumerate(steps):
        try:
            res = sub_history_step(req, step, resp_app, exp_bytes)
        except Exception as e:  # noqa
            res = ("request-reuse:raises", "%s: %s" % (exc_name(e), e))
        if res:
            key = res[0]
            if key != K_LAZY:
                try:
                    fresh = sub_history_step(new_sub_request(), step, Response(body=b"long-lived body", headerlist=[
                        ("X-Long", "lived"), ("Content-Type", "text/plain")]), exp_bytes)
                except Exception:  # noqa
                    fresh = ("x", "")
                if fresh is None:
                    key = "request-reuse:" + key.split(":", 1)[-1]
            return (key, "step %d of a history on ONE Request object (%s): %s" % (i, step[0], res[1]))
    obs = observe_req(req)
    obs0[3] = sorted(obs0[3])
    obs[3] = sorted(obs[3])
    if obs != obs0:
        return ("request-reuse:state-changed", "after the history the request shows %r, a new one %r" % (obs, obs0))
    if req.as_bytes() != exp_bytes:
        return ("request-reuse:state-changed", "after the history as_bytes() is %r, expected %r" % (req.as_bytes(), exp_bytes))
    return None


REQ_OPS = ["as_bytes", "as_bytes", "as_bytes_skip", "as_bytes_k", "as_text", "str", "body", "partial", "copy", "from_bytes", "headers",
           "echo", "body_file", "make_seekable", "copy_body"]


def request_reuse_oracle(E, ops):
    """as_bytes()/as_text() repeatedly on ONE request, interleaved with every way of reading the body"""
    from webob import Request
    body = E["input"]
    exp = build_request(E).as_bytes()
    h0 = {k: v for k, v in build_request(E).headers.items() if k != "Content-Length"}
    # reading or copying the body may add a truthful Content-Length (also "0" for an empty body): both forms are the
    # same request for this property
    r_cl = build_request(E)
    r_cl.copy_body()
    exps = {exp, r_cl.as_bytes()}
    heads = {x.partition(b"\r\n\r\n")[0] for x in exps}
    if not any(k == "CONTENT_LENGTH" for k, _ in E["hdrs"]):
        heads |= {b"\r\n".join(l for l in h.split(b"\r\n") if not l.startswith(b"Content-Length:")) for h in set(heads)}
    try:
        texts = {x.decode("utf-8") for x in exps}
    except UnicodeDecodeError:
        texts = None
    req = build_request(E)
    for i, op in enumerate(ops):
        msg = None
        try:
            if op == "as_bytes":
                got = req.as_bytes()
                msg = None if got in exps else "as_bytes() is %r, a new request gives %r" % (got, exp)
            elif op == "as_bytes_skip":
                got = req.as_bytes(skip_body=True)
                msg = None if got in heads else "as_bytes(skip_body=True) is %r, expected one of %r" % (got, sorted(heads))
            elif op == "as_bytes_k":
                got = req.as_bytes(skip_body=max(2, len(body)))
                msg = None if got in exps else "as_bytes(skip_body=len(body)) is %r, expected %r" % (got, exp)
            elif op in ("as_text", "str"):
                if texts is not None:
                    got = req.as_text() if op == "as_text" else str(req)
                    msg = None if got in texts else "%s is %r, expected %r" % (op, got, exp)
            elif op == "body":
                msg = None if req.body == body else "req.body is %r, expected %r" % (req.body, body)
            elif op == "partial":
                req.make_body_seekable()
                k = len(body) // 2
                got = req.body_file.read(k)
                msg = None if got == body[:k] else "body_file.read(%d) is %r, expected %r" % (k, got, body[:k])
            elif op == "body_file":
                req.make_body_seekable()
                got = req.body_file.read()
                msg = None if got == body else "body_file.read() is %r, expected %r" % (got, body)
            elif op == "make_seekable":
                req.make_body_seekable()
            elif op == "copy_body":
                req.copy_body()
            elif op == "copy":
                c = req.copy()
                if c.as_bytes() not in exps or c.body != body:
                    msg = "a copy() serialises to %r with body %r" % (c.as_bytes(), c.body)
            elif op == "from_bytes":
                r2 = type(req).from_bytes(req.as_bytes())
                msg = None if r2.body == body and r2.method == req.method and r2.url == req.url + ("/" if no_target(E) else "") else \
                    "from_bytes(as_bytes()) gives %r %r" % (r2.url, r2.body)
            elif op == "headers":
                h = {k: v for k, v in req.headers.items() if k != "Content-Length"}
                cl = req.headers.get("Content-Length")
                if h != h0 or (cl is not None and body and cl != str(len(body))):
                    msg = "headers are %r (Content-Length %r), expected %r" % (h, cl, h0)
            elif op == "echo":
                if body:
                    # (an application that consumes a NON-seekable wsgi.input leaves nothing to re-read: the caller
                    # that wants to use the request again makes the body seekable first)
                    req.make_body_seekable()
                    st, hh, it = req.call_application(echo_app)
                    got = b"".join(it)
                    msg = None if got == body else "an application read %r from wsgi.input, the body is %r" % (got, body)
        except Exception as e:  # noqa
            msg = "%s raised %s: %s" % (op, exc_name(e), e)
            if op == "from_bytes" and no_target(E) and "request line" in str(e):
                return (K_EMPTY, "a request with an empty path: %s" % msg)
        if msg:
            if op == "from_bytes" and "gives" in msg and r2.method == req.method.upper() != req.method:
                return (K_METHOD, "from_bytes(as_bytes()): method %r became %r" % (req.method, r2.method))
            return ("request-reuse:" + op, "step %d (%s) after %r on ONE request: %s" % (i, op, ops[:i], msg))
    return None


RESP_OPS = ["str", "str", "str_skip", "body", "text", "from_file", "from_file_bytes", "call", "call_head", "copy", "headerlist", "app_iter"]


def response_reuse_oracle(status, hl, body, ops):
    """ONE Response serialised with __str__ / read back with from_file repeatedly, interleaved with reads"""
    from webob import Request, Response
    mk = lambda: Response(status=status, headerlist=list(hl), app_iter=[body])  # noqa
    exp = str(mk())
    head = exp.split("\r\n\r\n", 1)[0] if body else exp
    resp = mk()
    for i, op in enumerate(ops):
        msg = None
        try:
            if op == "str":
                got = str(resp)
                msg = None if got == exp else "str(resp) is %r, a new response gives %r" % (got, exp)
            elif op == "str_skip":
                got = resp.__str__(skip_body=True)
                msg = None if got == head else "__str__(skip_body=True) is %r, expected %r" % (got, head)
            elif op == "body":
                msg = None if resp.body == body else "body is %r" % (resp.body,)
            elif op == "text":
                msg = None if resp.text == body.decode("utf-8") else "text is %r" % (resp.text,)
            elif op in ("from_file", "from_file_bytes"):
                s1 = str(resp)
                if op == "from_file":
                    f = io.StringIO(s1 + "TRAILING" if False else s1)
                    r2 = Response.from_file(f)
                    res = check_resp(r2, f.read(), status, hl, body, "", "from_file(StringIO(str)) again", True)
                elif s1.isascii():
                    f = io.BytesIO(s1.encode("ascii") + (b"NEXT" if body else b""))
                    r2 = Response.from_file(f)
                    res = check_resp(r2, f.read(), status, hl, body, b"NEXT" if body else b"", "from_file(BytesIO(str)) again")
                else:
                    res = None
                msg = res[1] if res else None
            elif op in ("call", "call_head"):
                r = Request.blank("/", method="HEAD" if op == "call_head" else "GET")
                st, hh, it = r.call_application(resp)
                got = b"".join(it)
                want = b"" if op == "call_head" else body
                if st != status or got != want:
                    msg = "used as a WSGI app (%s) it sent %r %r" % (r.method, st, got)
            elif op == "copy":
                c = resp.copy()
                msg = None if str(c) == exp and c.body == body else "a copy() prints %r" % str(c)
            elif op == "headerlist":
                msg = None if list(resp.headerlist) == list(hl) else "headerlist is %r" % (resp.headerlist,)
            elif op == "app_iter":
                got = b"".join(resp.app_iter)
                msg = None if got == body else "app_iter yields %r" % (got,)
        except Exception as e:  # noqa
            msg = "%s raised %s: %s" % (op, exc_name(e), e)
        if msg:
            return ("response-reuse:" + op, "step %d (%s) after %r on ONE response: %s" % (i, op, ops[:i], msg))
    if resp.status != status or list(resp.headerlist) != list(hl) or resp.body != body:
        return ("response-reuse:state-changed", "after %r the response shows %r %r %r" % (ops, resp.status, resp.headerlist, resp.body))
    return None


def pipelined_oracle(msgs, is_resp):
    """several serialised messages in ONE file object: each from_file call reads exactly one"""
    from webob import Request, Response
    data = b"".join(m[0] for m in msgs)
    f = io.BytesIO(data)
    for i, m in enumerate(msgs):
        wire, check = m[0], m[1]
        try:
            obj = (m[2] if len(m) > 2 else (Response if is_resp else Request)).from_file(f)
        except Exception as e:  # noqa
            return ("pipelined:from_file-raises", "message %d of %d in one file: from_file raised %s: %s" % (i, len(msgs), exc_name(e), e))
        msg = check(obj)
        if msg:
            key = "pipelined:" + ("response" if is_resp else "request")
            if isinstance(msg, tuple):
                key, msg = (msg[0] if msg[0] in (K_METHOD, K_EMPTY) else key), msg[1]
            return (key, "message %d of %d read from ONE file object: %s" % (i, len(msgs), msg))
    rest = f.read()
    if rest:
        return ("pipelined:consumed", "%r left in the file after reading all messages" % rest)
    return None


def order_items(rng, n):
    """(kind, json-able input, thunk) whose results must not depend on what ran before in this process"""
    items = []
    for _ in range(n):
        t = rng.randrange(4)
        if t == 0:
            E = rand_env(rng, wellformed=True)
            items.append(("as_bytes", jE(E), lambda E=E: [build_request(E).as_bytes(), observe_req(build_request(E))]))
        elif t == 1:
            E = rand_env(rng, wellformed=True)
            b = mutate_head(rng, build_request(E).as_bytes()) if rng.random() < 0.5 else build_request(E).as_bytes()
            items.append(("from_bytes", b.hex(), lambda b=b: observe_from_bytes(b)))
        elif t == 2:
            st, hl, body = rand_resp(rng)
            w = resp_wire(st, hl, body)
            items.append(("resp_from_file", w.hex(), lambda w=w: observe_resp_from_file(False, w)))
        else:
            sc = rand_script(rng)
            catch = rng.random() < 0.5
            items.append(("call_application", jscript(sc), lambda sc=sc, catch=catch: observe_call_application(sc, catch)))
    return items


def order_independence_oracle(rng, n):
    items = order_items(rng, n)
    first = [fw.jsonable(f()) for _, _, f in items]
    order = list(range(n))
    rng.shuffle(order)
    for i in order + order[::-1]:
        again = fw.jsonable(items[i][2]())
        if again != first[i]:
            return ("order-dependence:" + items[i][0], "%s on %r gave %r first and %r after other calls in this process" % (
                items[i][0], items[i][1], first[i], again)), {"kind": "order", "what": items[i][0]}
    return None, None


def chistory(steps):
    """[(is_send, catch, script)] as a Coq list"""
    return clist(cpair(cbool(snd), cpair(cbool(c), capp(sc))) for snd, c, sc in steps)


def observe_call_history(steps):
    from webob import Request
    req = Request.blank("/")
    out = []
    for snd, c, sc in steps:
        obs = (observe_send if snd else observe_call_application)(sc, c, req=req)
        if sc["shape"] == "generator":
            obs = mask_closed(obs, sc)
        out.append(obs)
    return out


def observe_as_bytes_history(sks, E):
    r = build_request(E)
    out = []
    for sk in sks:
        try:
            out.append([r.as_bytes(skip_body=sk), [[k, v] for k, v in r.headers.items()]])
        except Exception as e:  # noqa
            out.append(Err(exc_name(e)))
    return out


# =========================================================================== configurations of the Response class
_RESP_CLASSES = {}


def resp_class(name):
    """the class attributes Response.from_file / __str__ can depend on"""
    from webob import Response
    if not _RESP_CLASSES:
        class Latin1Body(Response):
            default_body_encoding = "latin-1"
            default_charset = None
            default_content_type = None

        class PlainDefaults(Response):
            default_content_type = "text/plain"
            default_charset = "latin-1"
            default_conditional_response = True
            unicode_errors = "replace"

        _RESP_CLASSES.update({None: Response, "latin1body": Latin1Body, "plaindefaults": PlainDefaults})
    return _RESP_CLASSES[name]


TEXTS = ["", "x", "h\xe9llo w\xf6rld", "\r\n\r\nX: y\r\n", "na\xefve \xa0", "a\nb", "  padded  ", "\xff\xfe",
         "done \U0001f389\U0001f389\U0001f389", "\U0001d11e\U0001d11e\U0001d11e\U0001d11e\U0001d11e", "\u20ac\U0001f600\U0001f600\U0001f600\U0001f600"]
INT_STATUS = {200: "200 OK", 404: "404 Not Found", 201: "201 Created", 500: "500 Internal Server Error", 299: "299 Success",
              204: "204 No Content", 418: "418 I'm a teapot"}


def rt_response_config_oracle(cls_name, status_int, charset, t, hl0):
    """Response.__str__ / from_file under a non-default configuration: another charset in Content-Type, a subclass with
    other default_* attributes, a status given as an int; the text file is read back with the SAME class."""
    cls = resp_class(cls_name)
    enc = charset or ("latin-1" if cls_name == "latin1body" else "utf-8")
    try:
        body = t.encode(enc)
    except UnicodeEncodeError:
        return None
    hl = list(hl0)
    if charset:
        hl.insert(0, ("Content-Type", "text/plain; charset=%s" % charset))
    hl.append(("Content-Length", str(len(body))))
    status = INT_STATUS[status_int]
    resp = cls(status=status_int, headerlist=list(hl), app_iter=[body])
    if resp.status != status:
        return ("response-roundtrip:constructor", "Response(status=%d).status is %r" % (status_int, resp.status))
    s1 = str(resp)
    exp = "\r\n".join([status] + ["%s: %s" % kv for kv in hl] + (["", t] if body else []))
    if s1 != exp:
        return ("response-roundtrip:str-form", "%s: str(resp) is %r, expected %r" % (cls.__name__, s1, exp))
    if body:
        f = io.StringIO(s1 + "NEXT")
        try:
            r2 = cls.from_file(f)
            rest = f.read()
        except Exception as e:  # noqa
            return ("response-roundtrip:from_file-raises", "%s from_file(StringIO(str + 'NEXT')) raised %s: %s" % (cls.__name__, exc_name(e), e))
        if r2.body != body or rest != "NEXT":
            key = K_TEXTLEN if len(t) != len(body) else "response-roundtrip:consumed"
            return (key, "%s (charset %s) from_file(StringIO(str(resp) + 'NEXT')): body %r (expected %r), %r left" % (
                cls.__name__, enc, r2.body, body, rest))
    for how, mk in (("from_file(StringIO(str))", lambda: io.StringIO(s1)),
                    ("from_file(minimal text file)", lambda: MinimalFile(io.StringIO(s1))),
                    ("from_file(wire bytes)", lambda: io.BytesIO(resp_wire(status, hl, body)))):
        f = mk()
        try:
            r2 = cls.from_file(f)
        except Exception as e:  # noqa
            return ("response-roundtrip:from_file-raises", "%s %s raised %s: %s on %r" % (cls.__name__, how, exc_name(e), e, s1))
        if type(r2) is not cls:
            return ("response-roundtrip:class", "%s.from_file returned a %s" % (cls.__name__, type(r2).__name__))
        res = check_resp(r2, f.read(), status, hl, body, b"" if "wire" in how else "", "%s %s (charset %s)" % (cls.__name__, how, enc),
                         "wire" not in how)
        if res:
            return res
    return None


# =========================================================================== outside the statement's domain
def outside_domain_request(kind, rng):
    """Requests OUTSIDE the hypotheses of the round-trip statement: what must still hold is checked (no exception other
    than the ValueError family, and every component the deviation does not touch still round-trips).
    Returns (result, case)."""
    from webob import Request
    E = rand_env(rng, wellformed=True)
    if not E["input"]:
        E["input"] = b"body \xff"
        E["hdrs"] = [kv for kv in E["hdrs"] if kv[0] != "CONTENT_LENGTH"] + [("CONTENT_LENGTH", "6")]
        E["seekable"], E["term"] = True, False
    touched = set()
    expect_raise = None
    if kind == "latin1-value":              # ASCII-valued headers only: a latin-1 value is re-read as UTF-8
        E["hdrs"].append(("HTTP_X_LATIN", rng.choice(["caf\xe9", "\xc3\xa9", "\xff", "na\xefve"])))
        touched = {"headers"}
        expect_raise = ValueError
    elif kind == "wide-value":              # not even latin-1: as_bytes cannot encode it
        E["hdrs"].append(("HTTP_X_WIDE", "\u20ac"))
        expect_raise = ValueError
        touched = {"headers"}
    elif kind == "lower-method":            # from_file upper-cases the method
        E["method"] = E["method"].lower() if E["method"].lower() != E["method"] else "get"
        touched = {"method"}
    elif kind == "https":                   # the wire form does not carry the scheme
        E["scheme"] = "https"
        touched = {"url"}
    elif kind == "no-host":                 # nor the host, when there is no Host header
        E["hdrs"] = [kv for kv in E["hdrs"] if kv[0] != "HTTP_HOST"]
        touched = {"url"}
    elif kind == "padded-value":            # surrounding whitespace of a value is not significant
        E["hdrs"].append(("HTTP_X_PAD", rng.choice([" a", "a ", "\ta\t", " "])))
        touched = {"headers"}
    elif kind == "odd-keys":                # keys no CGI gateway produces: two keys, one header name
        E["hdrs"] += [("HTTP_X_DUP", "1"), ("HTTP_x-dup", "2")]
        touched = {"headers"}
    elif kind == "empty-path":              # no request target at all
        E["script"], E["path"], E["qs"] = b"", b"", ""
        expect_raise = ValueError
        touched = {"url"}
    elif kind == "space-in-query":          # not a URL: the request line has four fields
        E["qs"] = "a=1 2"
        touched = {"url", "version"}
        expect_raise = ValueError
    elif kind == "big-body":                # beyond request_body_tempfile_limit and the 65535-byte copy step
        n = rng.choice([10 * 1024 + 1, 65535, 65536, 70001])
        E["input"] = bytes(rng.randrange(256) for _ in range(64)) * (n // 64) + b"x" * (n % 64)
        E["hdrs"] = [kv for kv in E["hdrs"] if kv[0] != "CONTENT_LENGTH"]
        if rng.random() < 0.5:
            E["hdrs"].append(("CONTENT_LENGTH", str(n)))
            E["seekable"], E["term"] = rng.random() < 0.5, False
        else:
            E["seekable"], E["term"] = False, True
        if E.get("cls") is None and rng.random() < 0.5:
            E["cls"] = "smalltmp"
    elif kind == "non-utf8-text":           # a text file cannot carry a body that is not UTF-8
        E["input"] = b"\xff\xfe body"
        E["hdrs"] = [kv for kv in E["hdrs"] if kv[0] != "CONTENT_LENGTH"] + [("CONTENT_LENGTH", str(len(E["input"])))]
    case = {"kind": "outside", "what": kind, "env": jE(E)}
    return outside_check(kind, E, touched, expect_raise), case


def outside_check(kind, E, touched, expect_raise):
    req = build_request(E)
    body = E["input"]
    try:
        url1, h1 = req.url, dict(req.headers)
        if kind == "non-utf8-text":
            try:
                req.as_text()
                return ("outside-domain:" + kind, "as_text() of a body that is not UTF-8 did not raise")
            except UnicodeDecodeError:
                pass
        b = req.as_bytes()
        r2 = type(req).from_bytes(b)
    except Exception as e:  # noqa
        if expect_raise and isinstance(e, expect_raise):
            return None
        if no_target(E) and isinstance(e, ValueError) and "request line" in str(e):
            return (K_EMPTY, "a request with an empty path: from_bytes(as_bytes()) raised %s" % e)
        return ("outside-domain:" + kind, "%s: %s (only %s is a documented refusal here)" % (
            exc_name(e), e, expect_raise.__name__ if expect_raise else "no exception"))
    if b.count(b"\r\n\r\n") < 1 or not b.endswith(body):
        return ("outside-domain:" + kind, "as_bytes() does not end with the body: %r" % b[-60:])
    if r2.method != E["method"]:
        if r2.method == E["method"].upper():
            return (K_METHOD, "from_bytes: method %r became %r" % (E["method"], r2.method))
        return ("outside-domain:" + kind, "method %r became %r" % (E["method"], r2.method))
    slash = "/" if no_target(E) else ""
    url1 = url1 + slash
    if "url" not in touched and r2.url != url1:
        return ("outside-domain:" + kind, "url %r became %r" % (url1, r2.url))
    if kind in ("https", "no-host") and r2.path_qs != req.path_qs + slash:
        return ("outside-domain:" + kind, "path_qs %r became %r" % (req.path_qs, r2.path_qs))
    if kind == "https" and r2.host != req.host:
        return ("outside-domain:" + kind, "host %r became %r" % (req.host, r2.host))
    if "version" not in touched and r2.http_version != E["proto"]:
        return ("outside-domain:" + kind, "version %r became %r" % (E["proto"], r2.http_version))
    if r2.body != body:
        return ("outside-domain:" + kind, "body of %d bytes became one of %d bytes" % (len(body), len(r2.body)))
    h2 = dict(r2.headers)
    skip = {"Content-Length", "X-Latin", "X-Pad", "X-Dup"}
    if {k: v for k, v in h1.items() if k not in skip} != {k: v for k, v in h2.items() if k not in skip}:
        return ("outside-domain:" + kind, "untouched headers %r became %r" % (h1, h2))
    if kind == "padded-value" and h2.get("X-Pad") != h1["X-Pad"].strip():
        return ("outside-domain:" + kind, "X-Pad %r became %r" % (h1["X-Pad"], h2.get("X-Pad")))
    # the URL itself: the statement says "same URL", the wire form carries neither the scheme nor (without a Host
    # header) the host — recorded findings, everything else above has been checked first
    if kind == "no-host" and r2.url != url1:
        return (K_NOHOST, "a request without a Host header (host from SERVER_NAME/SERVER_PORT): url %r became %r; as_bytes() is %r" % (
            url1, r2.url, b[:80]))
    if kind == "https" and r2.url != url1:
        return (K_HTTPS, "an https request: url %r became %r; as_bytes() is %r" % (url1, r2.url, b[:80]))
    if kind == "big-body":
        try:
            type(req).from_bytes(b + b" ")
            return ("request-roundtrip:trailing-data-accepted", "from_bytes accepted a space after a %d-byte body" % len(body))
        except ValueError:
            pass
    return None


OUTSIDE_KINDS = ["latin1-value", "wide-value", "https", "no-host", "padded-value", "odd-keys",
                 "space-in-query", "big-body", "non-utf8-text"]
# ("lower-method" and "empty-path" used to be here: they are inside the statement and are now generated by rand_env)


def outside_domain_script(rng):
    """application scripts that are not valid WSGI (a second start_response without exc_info): still no crash, the last
    start_response wins and no byte is lost"""
    s = rand_script(rng, lazy_ok=False)
    s["call"] = [("start", "200 OK", [], None), ("write", b"w"), ("start", "404 Not Found", [("X-A", "1")], None)] + \
        [e for e in s["call"] if e[0] == "write"]
    s["items"] = [i for i in s["items"] if i[0] == "yield"]
    catch = rng.random() < 0.5
    via = rng.choice(["call_application", "get_response"])
    return call_application_oracle(s, catch, via), {"kind": "script", "script": jscript(s), "catch": catch, "via": via}


def blank_shapes_oracle(rng):
    """Request.blank with the alternative argument shapes (POST as dict / list / with a file upload, headers as dict /
    list, body by keyword, base_url), then the round-trip statement"""
    from webob import Request
    shape = rng.choice(["post-dict", "post-list", "post-file", "post-bytes", "headers-list", "body-kw", "base-url", "environ-kw"])
    kw, path = {}, "/p/%C3%A9?q=1"
    if shape == "post-dict":
        kw = {"POST": {"a": "1", "b": "x y&z"}}
    elif shape == "post-list":
        kw = {"POST": [("a", "1"), ("a", "2"), ("b", "\xe9")]}
    elif shape == "post-file":
        kw = {"POST": [("f", ("name.bin", b"\r\n--x\r\n\xff\x00")), ("a", "1")]}
    elif shape == "post-bytes":
        kw = {"POST": b"raw=1&x=%ff", "method": "PUT"}
    elif shape == "headers-list":
        kw = {"headers": [("X-One", "1"), ("Accept", "text/html, */*;q=0.1")], "method": "DELETE"}
    elif shape == "body-kw":
        kw = {"body": b"\r\n\r\n\xff", "method": "PATCH", "content_type": "application/octet-stream"}
    elif shape == "base-url":
        kw = {"base_url": "http://example.org:8080/mount", "method": "POST", "body": b"x"}
    elif shape == "environ-kw":
        kw = {"environ": {"HTTP_X_ENV": "e: 1", "SERVER_PROTOCOL": "HTTP/1.1"}, "body": b"abc", "method": "POST"}
    case = {"kind": "blank", "shape": shape}
    try:
        req = Request.blank(path, **kw)
        url1, h1, body, m, v = req.url, dict(req.headers), req.body, req.method, req.http_version
        b = req.as_bytes()
        r2 = Request.from_bytes(b)
    except Exception as e:  # noqa
        return ("request-roundtrip:from_bytes-raises", "Request.blank(%r, **%r) then as_bytes/from_bytes raised %s: %s" % (
            path, sorted(kw), exc_name(e), e)), case
    E = {"method": m, "proto": v}
    msg = compare_requests(E, req, r2, url1, h1, body, "from_bytes (Request.blank %s)" % shape)
    if msg:
        return msg, case
    if shape.startswith("post-") and shape != "post-bytes":
        if list(r2.POST.items()) != list(req.POST.items()) and shape != "post-file":
            return ("request-roundtrip:body", "POST fields %r became %r" % (list(req.POST.items()), list(r2.POST.items()))), case
    if body:
        try:
            Request.from_bytes(b + b"\r\n")
            return ("request-roundtrip:trailing-data-accepted", "from_bytes accepted CRLF after the body (Request.blank %s)" % shape), case
        except ValueError:
            pass
    return None, case


# =========================================================================== streams for the parser correspondences
import re  # noqa

_SCHEME = re.compile(r"^[a-z]+:", re.I)
_BADESC = re.compile(r"%(?![0-9A-Fa-f]{2})")


def in_request_model(stream):
    """the stated domain of the from_file model: ASCII head, origin-form target, well-formed escapes"""
    if isinstance(stream, bytes):
        stream = stream.decode("latin-1")
    line0 = stream.split("\n", 1)[0]
    parts = line0.rstrip("\r\n").split(None, 2)
    if len(parts) == 3:
        if _SCHEME.search(parts[1]) or _BADESC.search(parts[1].split("?", 1)[0]):
            return False
    # head = everything up to the first blank line
    head = re.split(r"\n[ \t\r\x0b\x0c\x1c-\x1f\x85\xa0]*\n", stream, maxsplit=1)[0]
    return all(ord(c) < 128 for c in head) and all(ord(c) < 128 for c in line0)


def mutate_head(rng, data, is_resp=False):
    """one or two edits of the head of a serialised message (ASCII edits only)"""
    sep = b"\r\n\r\n"
    head, s, body = data.partition(sep)
    lines = head.split(b"\r\n")
    for _ in range(rng.choice([1, 1, 2])):
        m = rng.randrange(16)
        i = rng.randrange(len(lines))
        if m == 0:
            return head.replace(b"\r\n", b"\n") + (b"\n\n" if s else b"") + body
        elif m == 1 and i > 0:
            lines[i] = lines[i].replace(b": ", rng.choice([b":", b" : ", b":\t", b":   ", b": \t "]), 1)
        elif m == 2 and i > 0:
            k, _, v = lines[i].partition(b": ")
            lines.insert(rng.randrange(1, len(lines) + 1), rng.choice([k, k.lower(), k.upper()]) + b": " + rng.choice([v, b"z", b""]))
        elif m == 3 and i > 0:
            lines[i] = lines[i].replace(b":", b"", 1) if rng.random() < 0.5 else lines[i].replace(b":", b" ")
        elif m == 4:
            lines[0] = rng.choice([b" ".join(lines[0].split(b" ")[:2]), lines[0] + b" extra", lines[0].replace(b" ", b"  "),
                                   lines[0].replace(b" ", b"\t", 1), b" " + lines[0], lines[0] + b" ", lines[0].lower(), b"",
                                   lines[0].split(b" ")[0]])
        elif m == 5:
            lines.insert(0, b"")
        elif m == 6:
            cl = rng.choice([b"abc", b"", b" 3 ", b"+2", b"1_0", b"-1", b"-0", b"007", b"0", b"1", b"2", str(len(body) + 1).encode(),
                             str(max(0, len(body) - 1)).encode(), b"3,3", b"4\x1f", b"\x1c5", b"99999"])
            idx = [j for j, l in enumerate(lines) if l.lower().startswith(b"content-length:")]
            if idx and rng.random() < 0.7:
                lines[idx[0]] = lines[idx[0]].split(b":")[0] + b": " + cl
            else:
                lines.insert(rng.randrange(1, len(lines) + 1), rng.choice([b"Content-Length", b"content-length", b"CONTENT_LENGTH"]) + b": " + cl)
        elif m == 7:
            body = body + rng.choice([b"X", b"\r\n", b"GET / HTTP/1.0\r\n\r\n"])
            s = sep
        elif m == 8:
            whole = b"\r\n".join(lines) + s + body
            return whole[:rng.randrange(len(whole) + 1)]
        elif m == 9 and i > 0:
            lines[i] = rng.choice([b" ", b"\t", b"  "]) + lines[i]
        elif m == 10:
            lines.insert(rng.randrange(1, len(lines) + 1), rng.choice([b"  ", b"\t", b" \x0b", b"\x1c", b": v", b":", b"X", b"x-y_z.1: Q", b"a b: c"]))
        elif m == 11 and i > 0:
            lines[i] = lines[i] + rng.choice([b" ", b"\t", b" \x0c", b"\x1f", b"\r"])
        elif m == 12 and is_resp:
            lines[0] = rng.choice([lines[0][9:], lines[0][:12], b"HTTP/1.1  " + lines[0][9:], lines[0] + b" ", b"HTTP/1.1", b"HTTP/2 " + lines[0][9:],
                                   b"http/1.1 " + lines[0][9:], lines[0][9:12] + b"  x", b"abc def", b"20x OK", lines[0][9:].replace(b" ", b"\t")])
        elif m == 13 and not s:
            s, body = sep, rng.choice([b"x", b"\r\n", b"abc"])
        elif m == 14 and i > 0:
            del lines[i]
        elif m == 15 and i > 0:
            lines[i] = lines[i].replace(b"-", b"_") if rng.random() < 0.5 else lines[i].swapcase()
    return b"\r\n".join(lines) + s + body


def observe_from_bytes(b, cls=None):
    Request = req_class(cls)
    try:
        r = Request.from_bytes(b)
    except Exception as e:  # noqa
        return Err(exc_name(e))
    return observe_req(r)


def observe_from_file(text, stream, cls=None):
    Request = req_class(cls)
    f = io.StringIO(stream) if text else io.BytesIO(stream)
    try:
        r = Request.from_file(f)
    except Exception as e:  # noqa
        return Err(exc_name(e))
    obs = observe_req(r)
    return [obs, f.read()]


def canon_err(v):
    """exception classes the model does not distinguish"""
    if isinstance(v, Err) and v.name in ("UnicodeDecodeError", "UnicodeEncodeError"):
        return v
    return v


# =========================================================================== the check
def report(ctx, res, case, source):
    if res:
        ctx.fail(res[0], res[1], case, True, source)
        return True
    return False


def follow_up(ctx, name, case):
    """a model/implementation disagreement: does the property itself fail on the underlying structured case?"""
    res = run_case(case)
    if res:
        ctx.fail(res[0], res[1], case, True, "corr")
    else:
        ctx.broken.append("correspondence %s: model and implementation disagree on %s" % (name, json.dumps(case)[:1500]))


def run_case(case):
    """Evaluate the property oracle on a recorded case; None or (key, message)."""
    kind = case.get("kind")
    if kind == "request":
        E = unjE(case["env"])
        if not case.get("wellformed", True):
            return None
        for fk in ("bytesio", "buffered"):
            r = rt_request_oracle(E, bytes.fromhex(case.get("extra", "58")), fk)
            if r:
                return r
        return rt_request_text_oracle(E)
    if kind == "response":
        st, hl, body = case["status"], [tuple(p) for p in case["headers"]], bytes.fromhex(case["body"])
        r = rt_response_oracle(st, hl, body, bytes.fromhex(case.get("trailing", "")), case.get("file", "bytesio"))
        if r:
            return r
        if case.get("textual"):
            return rt_response_str_oracle(st, hl, body)
        return None
    if kind == "text-file":
        try:
            return text_file_case(case["what"], case["text"], case["trailing"])
        except Exception as e:  # noqa
            return ("text-file:message-boundary", "%s raised %s: %s" % (case["what"], exc_name(e), e))
    if kind == "response-config":
        return rt_response_config_oracle(case["cls"], case["status"], case["charset"], case["text"], [tuple(p) for p in case["headers"]])
    if kind == "outside":
        E = unjE(case["env"])
        what = case["what"]
        touched = {"latin1-value": {"headers"}, "wide-value": {"headers"}, "https": {"url"}, "no-host": {"url"},
                   "padded-value": {"headers"}, "odd-keys": {"headers"}, "space-in-query": {"url", "version"}}.get(what, set())
        raises = ValueError if what in ("latin1-value", "wide-value", "space-in-query") else None
        return outside_check(what, E, touched, raises)
    if kind == "blank":
        import random
        for seed in range(200):
            res, c = blank_shapes_oracle(random.Random(seed))
            if c["shape"] == case["shape"]:
                return res
        return None
    if kind == "sub-history":
        return sub_request_history_oracle(case["steps"])
    if kind == "request-reuse":
        if not case.get("wellformed", True):
            return None
        return request_reuse_oracle(unjE(case["env"]), case["ops"])
    if kind == "response-reuse":
        return response_reuse_oracle(case["status"], [tuple(p) for p in case["headers"]], bytes.fromhex(case["body"]), case["ops"])
    if kind == "pipelined-response":
        return pipelined_responses([(m["status"], [tuple(p) for p in m["headers"]], bytes.fromhex(m["body"])) for m in case["messages"]])
    if kind == "pipelined-request":
        return pipelined_requests([unjE(e) for e in case["envs"]])
    if kind == "script":
        s = unjscript(case["script"])
        for _again in (1, 2):          # twice in one process: state leaking between calls shows on the second
            for catch in ([case["catch"]] if "catch" in case else [False, True]):
                for via in ([case["via"]] if "via" in case else ["call_application", "get_response"]):
                    r = call_application_oracle(s, catch, via)
                    if r:
                        return r
        return None
    return None


def jresp(st, hl, body, **kw):
    d = {"kind": "response", "status": st, "headers": [list(p) for p in hl], "body": body.hex()}
    d.update(kw)
    return d


# ---------------------------------------------------------------- what is modelled (rather than verified)
MODELLED = [
    # Request wire forms (Model/C20_wire.v: as_bytes, request_line, req_from_file, hdr_loop, from_bytes)
    "webob.request:BaseRequest.as_bytes", "webob.request:BaseRequest.from_bytes", "webob.request:BaseRequest.from_file",
    "webob.request:environ_from_url", "webob.request:PATH_SAFE", "webob.descriptors:SCHEME_RE",
    # url / host_url / path (url, host_url, path_qs, url_quote, url_unquote)
    "webob.request:BaseRequest.url", "webob.request:BaseRequest.path_url", "webob.request:BaseRequest.application_url",
    "webob.request:BaseRequest.host_url", "webob.util:url_unquote", "webob.util:unquote", "webob.util:bytes_", "webob.util:text_",
    # the headers view of the environ (hdr_items, trans_key, trans_name, dict_get/dict_set)
    "webob.request:BaseRequest._headers__get", "webob.headers:EnvironHeaders", "webob.headers:_trans_key", "webob.headers:_trans_name",
    "webob.headers:key2header", "webob.headers:header2key",
    # the body state (is_body_readable, acquire, set_body, content_length, py_int, dec)
    "webob.request:BaseRequest.is_body_readable", "webob.request:BaseRequest.body", "webob.request:BaseRequest.body_file",
    "webob.request:BaseRequest.make_body_seekable", "webob.request:BaseRequest.copy_body", "webob.request:BaseRequest.content_length",
    "webob.descriptors:parse_int_safe", "webob.descriptors:serialize_int", "webob.descriptors:environ_getter", "webob.descriptors:converter",
    # sub-requests (Model/C20_callapp.v: call_application, send)
    "webob.request:BaseRequest.call_application", "webob.request:BaseRequest.send",
    # Response wire forms (resp_from_file, rhdr_loop, status_ok, resp_clen, cl_last, resp_str)
    "webob.response:Response.from_file", "webob.response:Response.__str__", "webob.response:Response._status__set",
    "webob.response:Response._body__set", "webob.response:Response._text__set", "webob.response:Response.content_length",
    "webob.descriptors:header_getter",
]
REGENERATED = []           # no regex or table decides this property: nothing is translated into coq/Gen
ORACLE_ONLY = [
    "webob.request:BaseRequest.as_text", "webob.request:BaseRequest.from_text", "webob.request:BaseRequest.blank",
    "webob.request:BaseRequest.copy", "webob.request:BaseRequest.method", "webob.request:BaseRequest.http_version",
    "webob.request:BaseRequest.script_name", "webob.request:BaseRequest.path_info", "webob.request:BaseRequest.encget",
    "webob.request:LimitedLengthFile", "webob.request:BaseRequest.__init__",
    "webob.response:Response.__init__", "webob.response:Response.__call__", "webob.response:Response.copy",
    "webob.response:Response._body__get", "webob.response:Response._text__get", "webob.response:Response.charset",
    "webob.response:Response._status_code__set", "webob.response:Response._headerlist__get", "webob.response:iter_close",
]


def run(ctx):
    import webob.util
    # (take_width / read_body mirror util.read_text_body, which exists once fixes/C20-5 is applied)
    ctx.modelled(MODELLED + (["webob.util:read_text_body"] if hasattr(webob.util, "read_text_body") else []))
    ctx.extra["regenerated_from_source"] = REGENERATED
    ctx.extra["oracle_only"] = ORACLE_ONLY
    # Model/C20_obs.vo (the encoders used by the correspondence) is not in the closure of Props/C20.vo
    ctx.build(["Props/C20.vo", "Model/C20_obs.vo"])
    from webob import Request, Response  # noqa

    # ------------------------------------------------------------------ correspondence: requests
    rng = ctx.sub_rng("corr-req")
    n = ctx.scale(300, 3000)
    cases = []
    for _ in range(n):
        E = rand_env(rng)
        cases.append((cenv(E), observe_req(build_request(E)), {"kind": "request", "env": jE(E), "wellformed": False}))
    for i in ctx.corr("observe", IMPORTS, "c_observe", cases, in_type="env")[:5]:
        follow_up(ctx, "observe", cases[i][2])

    cases = []
    for _ in range(ctx.scale(400, 4000)):
        wf = rng.random() < 0.5
        E = rand_env(rng, wellformed=wf)
        sk = rng.choice([False, False, True, 1, 2, 3, 5, 50])
        r = build_request(E)
        try:
            out = [r.as_bytes(skip_body=sk), [[k, v] for k, v in r.headers.items()]]
        except Exception as e:  # noqa
            out = Err(exc_name(e))
        cases.append((cpair(cskip(sk), cenv(E)), out, {"kind": "request", "env": jE(E), "wellformed": wf, "skip": sk}))
    for i in ctx.corr("as_bytes", IMPORTS, "c_as_bytes", cases, in_type="(skip * env)")[:5]:
        follow_up(ctx, "as_bytes", cases[i][2])

    cases, fcases = [], []
    for _ in range(ctx.scale(500, 5000)):
        E = rand_env(rng, wellformed=True)
        b = build_request(E).as_bytes()
        mutated = rng.random() < 0.6
        if mutated:
            b = mutate_head(rng, b)
        if not in_request_model(b):
            continue
        meta = {"kind": "request", "env": jE(E), "wellformed": True, "stream": b.hex(), "mutated": mutated}
        cases.append((cstr(b), observe_from_bytes(b, E.get("cls")), meta))
        if rng.random() < 0.6:
            extra = rng.choice([b"", b"X", b"\r\nmore", b"\xff"])
            if not in_request_model(b + extra):
                extra = b""
            fcases.append((cpair("false", cstr(b + extra)), observe_from_file(False, b + extra, E.get("cls")), meta))
        try:
            t = (b + rng.choice([b"", b"", b"\xc3\xa9x"])).decode("utf-8")
        except UnicodeDecodeError:
            continue
        if in_request_model(t) and rng.random() < 0.6:
            fcases.append((cpair("true", cstr(t)), observe_from_file(True, t, E.get("cls")), dict(meta, text=True)))
    for i in ctx.corr("from_bytes", IMPORTS, "c_from_bytes", cases, in_type="bytes")[:5]:
        follow_up(ctx, "from_bytes", cases[i][2])
    for i in ctx.corr("from_file", IMPORTS, "c_from_file", fcases, in_type="(bool * str)")[:5]:
        follow_up(ctx, "from_file", fcases[i][2])

    # ------------------------------------------------------------------ correspondence: responses
    rng = ctx.sub_rng("corr-resp")
    cases, scases = [], []
    for _ in range(ctx.scale(500, 5000)):
        textual = rng.random() < 0.4
        st, hl, body = rand_resp(rng, latin=True, textual=textual)
        wire = resp_wire(st, hl, body)
        if rng.random() < 0.5:
            wire = mutate_head(rng, wire, is_resp=True)
        wire += rng.choice([b"", b"", b"TRAIL", b"\r\n"])
        meta = jresp(st, hl, body, textual=textual)
        if textual and rng.random() < 0.6:
            # a text file: the head as text (latin-1 header text is carried as is), the body decoded
            head, sep, rest = wire.partition(b"\r\n\r\n")
            try:
                t = head.decode("latin-1") + sep.decode() + rest.decode("utf-8")
            except UnicodeDecodeError:
                continue
            if skip_resp_stream(t) or any(m.group(1).strip('"').lower() != "utf-8" for m in re.finditer(r"charset=([^\s;]*)", t, re.I)):
                continue                 # (a text file is encoded with the response's charset; the model's conv is utf-8)
            cases.append((cpair("true", cstr(t)), observe_resp_from_file(True, t), dict(meta, text=True, stream=[ord(c) for c in t])))
        else:
            if skip_resp_stream(wire.decode("latin-1")):
                continue
            cases.append((cpair("false", cstr(wire)), observe_resp_from_file(False, wire), dict(meta, stream=wire.hex())))
        if textual and rng.random() < 0.5:
            r = Response(status=st, headerlist=list(hl), app_iter=[body])
            scases.append((cpair(cresp(st, hl, body), cstr(body.decode("utf-8"))), str(r), meta))
    for i in ctx.corr("resp_from_file", IMPORTS, "c_resp_from_file", cases, in_type="(bool * str)")[:8]:
        follow_up(ctx, "resp_from_file", cases[i][2])
    for i in ctx.corr("resp_str", IMPORTS, "c_resp_str", scases, in_type="(resp * str)")[:5]:
        follow_up(ctx, "resp_str", scases[i][2])

    # ------------------------------------------------------------------ correspondence: sub-requests
    rng = ctx.sub_rng("corr-app")
    cases, scases = [], []
    for _ in range(ctx.scale(500, 5000)):
        s = rand_script(rng)
        if s["shape"] == "generator":
            s["close"] = True         # a generator object always has close(); whether it ran is not observable
        catch = rng.random() < 0.5
        meta = {"kind": "script", "script": jscript(s)}
        obs = observe_call_application(s, catch)
        if s["shape"] == "generator":
            obs = mask_closed(obs, s)
        cases.append((cpair(cbool(catch), capp(s)), obs, dict(meta, catch=catch, via="call_application")))
        if rng.random() < 0.6 and not (lazy_shape(s) and declares_length(s)):
            # (in the known-finding region a declared Content-Length trips Response.body's own assertion)
            obs = observe_send(s, catch)
            if s["shape"] == "generator":
                obs = mask_closed(obs, s)
            scases.append((cpair(cbool(catch), capp(s)), obs, dict(meta, catch=catch, via="get_response")))
    for i in ctx.corr("call_application", IMPORTS, "c_call_application", cases, in_type="(bool * app)")[:8]:
        follow_up(ctx, "call_application", cases[i][2])
    for i in ctx.corr("send", IMPORTS, "c_send", scases, in_type="(bool * app)")[:8]:
        follow_up(ctx, "send", scases[i][2])

    # ------------------------------------------------------------------ correspondence: util.read_text_body itself
    import webob.util
    if hasattr(webob.util, "read_text_body"):
        rng = ctx.sub_rng("corr-read-text")
        cases = []
        sweep = [(len(t.encode("utf-8")), t + u) for t in text_width_sweep() for u in ("", "NEXT", "\U0001f389\U0001f389\U0001f389\U0001f389")]
        gen = sweep[::ctx.scale(3, 1)] + [rand_read_text_case(rng) for _ in range(ctx.scale(300, 3000))]
        for length, text in gen:
            lit = cpair(copt(None if length is None else "(%d)%%Z" % length), cstr(text))
            cases.append((lit, observe_read_text(length, text), {"kind": "text-file", "what": "request", "text": text, "trailing": "",
                                                              "length": length}))
        for i in ctx.corr("read_text_body", IMPORTS, "c_read_text_body", cases, in_type="(option Z * str)")[:5]:
            c = cases[i][2]
            ctx.broken.append("correspondence read_text_body: model and implementation disagree on length=%r text=%r" % (c["length"], c["text"]))
    else:
        ctx.broken.append("webob.util.read_text_body does not exist: the text-file reader the model mirrors is gone")

    # ------------------------------------------------------------------ correspondence: histories on one object
    rng = ctx.sub_rng("corr-history")
    cases = []
    for _ in range(ctx.scale(120, 1200)):
        steps = []
        for _ in range(rng.randrange(2, 6)):
            sc = rand_script(rng)
            if sc["shape"] == "generator":
                sc["close"] = True
            snd = rng.random() < 0.4
            if snd and lazy_shape(sc) and declares_length(sc):
                snd = False
            steps.append((snd, rng.random() < 0.5, sc))
        cases.append((chistory(steps), observe_call_history(steps),
                      {"kind": "sub-history", "steps": [["script", jscript(sc), c, "get_response" if snd else "call_application"]
                                                        for snd, c, sc in steps]}))
    for i in ctx.corr("call_history", IMPORTS, "c_call_history", cases, in_type="(list (bool * (bool * app)))")[:5]:
        follow_up(ctx, "call_history", cases[i][2])
    cases = []
    for _ in range(ctx.scale(150, 1500)):
        E = rand_env(rng, wellformed=rng.random() < 0.5)
        sks = [rng.choice([False, False, True, 2, 5, 50]) for _ in range(rng.randrange(2, 5))]
        cases.append((cpair(clist(cskip(k) for k in sks), cenv(E)), observe_as_bytes_history(sks, E),
                      {"kind": "request-reuse", "env": jE(E), "ops": ["as_bytes" if k is False else "as_bytes_skip" for k in sks],
                       "wellformed": False}))
    for i in ctx.corr("as_bytes_history", IMPORTS, "c_as_bytes_history", cases, in_type="(list skip * env)")[:5]:
        follow_up(ctx, "as_bytes_history", cases[i][2])

    # a correspondence that could not be evaluated at all must not hide behind other violations
    for b in ctx.broken:
        if b.startswith("correspondence") and "could not be evaluated" in b:
            ctx.fail("correspondence-not-evaluated", b, {"broken": b}, False, "corr")
            break

    # ------------------------------------------------------------------ oracle sweeps
    oracle_requests(ctx)
    oracle_responses(ctx)
    oracle_scripts(ctx)
    oracle_histories(ctx)
    oracle_configurations(ctx)

    ctx.extra["rule"] = (
        "correspondence: requests are built from generated environs (methods incl. extension tokens, script/path octets incl. "
        "UTF-8 and reserved characters, query strings over URL punctuation, header sets with separator-rich values, bodies incl. "
        "CRLFCRLF / header look-alikes / invalid UTF-8, every Content-Length/body state); parser inputs are real serialisations, "
        "60% of them with 1-2 head edits (LF only, spacing, repeated names, missing colon, broken request/status line, "
        "Content-Length junk, truncation, trailing data); application scripts are random valid WSGI event sequences over "
        "list/tuple/iterator/generator shapes. Distinct = distinct Coq input literal. oracle: a case is non-trivial when the "
        "message has a non-empty body or >= 2 headers (wire forms) / the script has >= 2 events (sub-requests)")
    ctx.extra["exhaustive"] = False
    ctx.assume += [
        "request round trip: scheme http, a Host header, non-empty path starting with '/', method = method.upper() "
        "(from_file upper-cases it), header values printable ASCII without leading/trailing whitespace, environ keys [A-Z0-9_]",
        "the head of a parsed request is ASCII, its target is origin-form with well-formed %XX escapes (model domain)",
        "response round trip: one status line 'NNN reason', a Content-Length that equals the body length, names without ':' / LF, "
        "values without leading/trailing ASCII whitespace / LF",
        "application scripts are valid WSGI (write only after start_response, a repeated start_response carries exc_info)",
    ]
    ctx.trusted += [
        "the harness's own serialiser (request line, sorted header lines, CRLF framing; HTTP/1.1 status line + header lines + body) "
        "is the reference for the wire form",
        "the reference WSGI server semantics in harness/props/c20.py (status/headers = last start_response, body = write() and "
        "yielded chunks in order) is the reference for sub-requests",
        "C10 owns the reading of wsgi.input (LimitedLengthFile, copy_body); C20 models only its net effect on small bodies",
    ]


def mask_closed(obs, s):
    """generator objects: close() after exhaustion cannot be observed; report what the model must say"""
    if obs[0] == "returned":
        obs = list(obs)
        obs[5] = True
        return obs
    if obs[0] in ("raised", "failed"):
        obs = list(obs)
        # raised while the application function body runs lazily = inside the iteration
        obs[2] = True
        return obs
    if obs[0] == "sent":
        obs = list(obs)
        obs[4] = True
        return obs
    return obs


def skip_resp_stream(t):
    """outside the response model: a status that is a plain integer (reason table), non-ASCII digits"""
    line0 = t.split("\n", 1)[0].strip(" \t\n\r\x0b\x0c")
    if line0.startswith("HTTP/"):
        parts = line0.split(None, 2)
        if len(parts) == 3:
            line0 = parts[1] + " " + parts[2]
    try:
        int(line0)
        return True
    except ValueError:
        pass
    return False


def nontrivial_msg(nheaders, body):
    return 1 if (body or nheaders >= 2) else 0


def oracle_requests(ctx):
    rng = ctx.sub_rng("oracle-req")
    n = ctx.scale(2500, 100000)
    nt = 0
    for i in range(n):
        E = rand_env(rng, wellformed=True)
        extra = rng.choice(EXTRAS)
        fk = rng.choice(["bytesio", "bytesio", "buffered", "tempfile"] if i % 50 == 0 else ["bytesio", "buffered", "minimal"])
        case = {"kind": "request", "env": jE(E), "extra": extra.hex()}
        nt += nontrivial_msg(len(E["hdrs"]), E["input"])
        if not report(ctx, rt_request_oracle(E, extra, fk), case, "request-roundtrip"):
            report(ctx, rt_request_text_oracle(E), case, "request-roundtrip")
    ctx.oracle_count("request-roundtrip", n, nt)
    # requests built through the public API
    m = ctx.scale(600, 8000)
    nt = 0
    for _ in range(m):
        res, case, t = api_request_oracle(rng)
        nt += t
        report(ctx, res, case, "request-api")
    ctx.oracle_count("request-api", m, nt)
    # exhaustive small bound: every body of length <= 2 over {CR, LF, ':', 0xFF} x every extra of length <= 1
    alpha = [13, 10, 58, 255]
    bodies = [bytes(x) for k in range(0, ctx.scale(3, 4)) for x in __import__("itertools").product(alpha, repeat=k)]
    cnt = 0
    for body in bodies:
        for extra in [b""] + [bytes([a]) for a in alpha + [32, 9]] + [b"\r\n", b" \r\n "]:
            E = {"method": "POST", "script": b"", "path": b"/p", "qs": "q=1", "proto": "HTTP/1.1", "scheme": "http", "sname": "localhost",
                 "sport": "80", "hdrs": [("HTTP_HOST", "localhost:80"), ("HTTP_X_A", "a: b")] +
                 ([("CONTENT_LENGTH", str(len(body)))] if body else []), "input": body, "seekable": True, "term": False}
            cnt += 1
            report(ctx, rt_request_oracle(E, extra), {"kind": "request", "env": jE(E), "extra": extra.hex()}, "request-exhaustive")
    ctx.oracle_count("request-exhaustive", cnt, cnt)


def api_request_oracle(rng):
    """a request assembled with Request.blank / attribute setters, then the same round-trip statement"""
    from webob import Request
    host = rng.choice(HOSTS)
    script = rng.choice([b"", b"", b"/app"])
    path = rand_path(rng)
    qs = rand_qs(rng).replace("#", "")          # Request.blank refuses a fragment in an absolute URL
    url = "http://" + host + ref_quote(script + path) + ("?" + qs if qs else "")
    method = rng.choice(METHODS)
    body = rand_body(rng, 200)
    hdrs = {}
    for k in rng.sample(["Accept", "X-Foo", "User-Agent", "Cookie", "X-3d", "If-None-Match", "Content-Type", "x-lower-case", "X_Under"],
                        rng.choice([0, 1, 2, 4])):
        hdrs[k] = rand_value(rng)
    case = {"kind": "api", "url": url, "method": method, "body": body.hex(), "headers": hdrs, "script": script.hex(),
            "proto": rng.choice(PROTOS), "via_file": rng.random() < 0.3}
    return api_request_case(case), case, nontrivial_msg(len(hdrs) + 1, body)


def api_request_case(case):
    from webob import Request
    body = bytes.fromhex(case["body"])
    script = bytes.fromhex(case["script"])
    req = Request.blank(case["url"], method=case["method"], headers=dict(case["headers"]))
    req.http_version = case["proto"]
    if script:
        # move the first segment(s) into SCRIPT_NAME, as a mounting middleware does
        n = len(script.decode("latin-1"))
        req.script_name, req.path_info = req.path_info[:n], req.path_info[n:]
    if case["via_file"]:
        req.body_file = io.BytesIO(body)
    elif body:
        req.body = body
    url1, h1 = req.url, dict(req.headers)
    if url1 != case["url"].replace(":80/", "/", 1) and url1 != case["url"]:
        return ("request-roundtrip:url", "Request.blank(%r).url is %r" % (case["url"], url1))
    b = req.as_bytes()
    head, sep, got_body = b.partition(b"\r\n\r\n")
    if got_body != body or (body and not sep):
        return ("request-roundtrip:as_bytes-form", "as_bytes() carries body %r, expected %r" % (got_body, body))
    try:
        r2 = Request.from_bytes(b)
    except Exception as e:  # noqa
        return ("request-roundtrip:from_bytes-raises", "from_bytes(as_bytes()) raised %s: %s; bytes %r" % (exc_name(e), e, b))
    E = {"method": case["method"], "proto": case["proto"]}
    msg = compare_requests(E, req, r2, url1, h1, body, "from_bytes")
    if msg:
        return msg
    if body:
        try:
            Request.from_bytes(b + b"\r\n")
            return ("request-roundtrip:trailing-data-accepted", "from_bytes accepted CRLF after the %d-byte body" % len(body))
        except ValueError:
            pass
    if req.as_bytes(skip_body=True) != head:
        return ("request-roundtrip:skip_body", "as_bytes(skip_body=True) is not the head of as_bytes()")
    return None


def oracle_responses(ctx):
    rng = ctx.sub_rng("oracle-resp")
    n = ctx.scale(2500, 100000)
    nt = 0
    for i in range(n):
        st, hl, body = rand_resp(rng)
        trailing = rng.choice([b"", b"TRAIL", b"\r\n", b" ", b"\n\n", b"HTTP/1.1 200 OK\r\n\r\n"])
        fk = rng.choice(["bytesio", "buffered", "minimal"]) if i % 50 else "tempfile"
        nt += nontrivial_msg(len(hl), body)
        report(ctx, rt_response_oracle(st, hl, body, trailing, fk), jresp(st, hl, body, trailing=trailing.hex(), file=fk), "response-roundtrip")
    ctx.oracle_count("response-roundtrip", n, nt)
    m = ctx.scale(1500, 20000)
    nt = 0
    for _ in range(m):
        st, hl, body = rand_resp(rng, latin=rng.random() < 0.5, textual=True)
        nt += nontrivial_msg(len(hl), body)
        report(ctx, rt_response_str_oracle(st, hl, body), jresp(st, hl, body, textual=True), "response-str")
    ctx.oracle_count("response-str", m, nt)
    # exhaustive small bound: bodies <= 2 over {CR, LF, ':', 0xFF}, one header value over separators
    alpha = [13, 10, 58, 255]
    cnt = 0
    import itertools
    for k in range(0, ctx.scale(3, 4)):
        for x in itertools.product(alpha, repeat=k):
            body = bytes(x)
            for v in ["", "a", "a: b", ":", "a,b;c  d", "caf\xe9", "\xa0x\xa0"]:
                hl = [("X-V", v), ("Content-Length", str(len(body))), ("X-V", "2")]
                cnt += 1
                report(ctx, rt_response_oracle("200 OK", hl, body, b"T"), jresp("200 OK", hl, body, trailing="54"), "response-exhaustive")
    ctx.oracle_count("response-exhaustive", cnt, cnt)


def small_scripts(depth):
    """every valid script with at most `depth` events over a small universe"""
    import itertools
    st = ("start", "200 OK", [("X-A", "1")], None)
    st2 = ("start", "500 Internal Server Error", [], 0)
    call_u = [st, st2, ("write", b"w"), ("raise", 1)]
    item_u = [("yield", b"y"), ("yield", b""), ("ev", ("write", b"v")), ("ev", st), ("ev", st2), ("ev", ("raise", 2))]
    out = []
    for nc in range(0, depth + 1):
        for call in itertools.product(call_u, repeat=nc):
            for ni in range(0, depth + 1 - nc):
                for items in itertools.product(item_u, repeat=ni):
                    if valid_script(call, items):
                        out.append((list(call), list(items)))
    return out


def valid_script(call, items):
    started = False
    for e in list(call) + [i[1] for i in items if i[0] == "ev"]:
        if e[0] == "write" and not started:
            return False
        if e[0] == "start":
            if started and e[3] is None:
                return False
            started = True
    return True


def oracle_scripts(ctx):
    rng = ctx.sub_rng("oracle-app")
    n = ctx.scale(2500, 100000)
    nt = 0
    for _ in range(n):
        s = rand_script(rng)
        catch = rng.random() < 0.5
        via = rng.choice(["call_application", "get_response", "send"])
        nt += 1 if len(s["call"]) + len(s["items"]) >= 2 else 0
        report(ctx, call_application_oracle(s, catch, via), {"kind": "script", "script": jscript(s), "catch": catch, "via": via}, "sub-request")
    ctx.oracle_count("sub-request", n, nt)
    cnt = 0
    for call, items in small_scripts(ctx.scale(3, 4)):
        only_yields = all(i[0] == "yield" for i in items)
        for shape, close in ([("list", False)] if only_yields else []) + [("iter", True), ("iter", False), ("generator", False)]:
            s = {"call": call, "items": items, "close": close, "shape": shape}
            for catch in (False, True):
                for via in ("call_application", "get_response"):
                    cnt += 1
                    report(ctx, call_application_oracle(s, catch, via),
                           {"kind": "script", "script": jscript(s), "catch": catch, "via": via}, "sub-request-exhaustive")
    ctx.oracle_count("sub-request-exhaustive", cnt, cnt)


def pipelined_responses(rs):
    def mk(st, hl, body):
        return lambda r2: (lambda m: m[1] if m else None)(check_resp(r2, b"", st, hl, body, b"", "from_file"))
    return pipelined_oracle([(resp_wire(st, hl, body), mk(st, hl, body)) for st, hl, body in rs], True)


def pipelined_requests(envs):
    msgs = []
    for E in envs:
        req = build_request(E)
        url1, h1 = req.url, dict(req.headers)
        b = req.as_bytes()
        msgs.append((b, lambda r2, E=E, req=req, url1=url1, h1=h1:
                     compare_requests(E, req, r2, url1, h1, E["input"], "from_file"), type(req)))
    return pipelined_oracle(msgs, False)


def text_width_sweep():
    """every prefix x every run of four-byte characters at the tail: the later reads of read_text_body then have
    1..20 bytes missing"""
    out = []
    for head in ["", "a", "\xe9", "\u20ac", "ab\u20ac", "\U0001f389a", "abcdefg", "\xe9\xe9\xe9\xe9\xe9"]:
        for k in range(0, 6):
            for a in ("\U0001f389", "\U0001d11e"):
                out.append(head + a * k)
                if k:
                    out.append(head + a * k + "!")
    return out


def text_file_case(kind, t, trailing):
    """a message whose body is the text t, read from a text file that goes on with `trailing`"""
    from webob import Request, Response
    body = t.encode("utf-8")
    if kind == "request":
        req = Request.blank("/t", method="POST", body=body, content_type="text/plain; charset=utf-8")
        f = io.StringIO(req.as_text() + trailing)
        r2 = Request.from_file(f)
        cl = r2.content_length
    else:
        resp = Response(body=body, content_type="text/plain", charset="utf-8")
        f = io.StringIO(str(resp) + trailing)
        r2 = Response.from_file(f)
        cl = r2.content_length
    rest = f.read()
    if r2.body != body or rest != trailing or cl != len(body):
        return (K_TEXTLEN if False else "text-file:message-boundary",
                "%s.from_file(StringIO(<message with body %r> + %r)): body %r, Content-Length %r, %r left in the file" % (
                    kind, t, trailing, r2.body.decode("utf-8", "replace"), cl, rest))
    # and the next message in the same file is then read correctly
    if kind == "request":
        f = io.StringIO(req.as_text() + "\r\n".join(["PUT /next HTTP/1.1", "Host: h", "Content-Length: 2", "", "ok"]))
        Request.from_file(f)
        try:
            n = Request.from_file(f)
            ok = (n.method, n.path, n.body) == ("PUT", "/next", b"ok")
        except Exception:  # noqa
            ok = False
        if not ok:
            return ("text-file:message-boundary", "the request that follows a body %r in the same text file is misread" % t)
    return None


def rand_read_text_case(rng):
    """(length or None, file text) for the helper itself: exact lengths, lengths that end inside a character, short files,
    negative and absent lengths"""
    t = rand_text(rng)
    u = rng.choice(["", "NEXT", "\U0001f389\U0001f389\U0001f389\U0001f389", "\xe9", " "])
    n = len(t.encode("utf-8"))
    r = rng.random()
    if r < 0.55:
        length = n
    elif r < 0.8:
        length = max(0, n + rng.choice([-3, -2, -1, 1, 2, 3, 5]))
    elif r < 0.9:
        length = n + len(u.encode("utf-8")) + rng.choice([0, 1, 7, 1000])
    else:
        length = rng.choice([None, -1, 0, 1])
    return length, t + u


def observe_read_text(length, s):
    import webob.util
    f = io.StringIO(s)
    got = webob.util.read_text_body(f, length, "utf-8")
    return [got, f.read()]


def oracle_configurations(ctx):
    """configurations, argument shapes and the outside of the modelled value domain"""
    rng = ctx.sub_rng("oracle-config")
    n = ctx.scale(1200, 12000)
    for _ in range(n):
        cls_name = rng.choice([None, None, "latin1body", "plaindefaults"])
        charset = None if cls_name == "latin1body" else rng.choice([None, "latin-1", "utf-8", "cp1252", "utf-16", "ascii", "ISO-8859-15",
                                                                     "utf-32", "utf-16-le"])
        t = rng.choice(TEXTS) if rng.random() < 0.6 else rand_text(rng)
        code = rng.choice(sorted(INT_STATUS))
        hl0 = [(rng.choice(["X-Foo", "x-foo", "Set-Cookie", "ETag"]), rand_rvalue(rng, latin=True)) for _ in range(rng.randrange(3))]
        case = {"kind": "response-config", "cls": cls_name, "status": code, "charset": charset, "text": t, "headers": [list(p) for p in hl0]}
        report(ctx, rt_response_config_oracle(cls_name, code, charset, t, hl0), case, "response-config")
    ctx.oracle_count("response-config", n, n)
    m = ctx.scale(660, 6600)
    for i in range(m):
        kind = OUTSIDE_KINDS[i % len(OUTSIDE_KINDS)]
        if kind == "big-body" and not ctx.thorough and i >= 5 * len(OUTSIDE_KINDS):
            kind = "padded-value"
        res, case = outside_domain_request(kind, rng)
        report(ctx, res, case, "outside-domain")
    for _ in range(ctx.scale(100, 1000)):
        res, case = outside_domain_script(rng)
        report(ctx, res, case, "outside-domain")
    ctx.oracle_count("outside-domain", m + ctx.scale(100, 1000), m)
    cnt = 0
    for t in text_width_sweep():
        for kind in ("request", "response"):
            for trailing in TEXT_TRAILERS:
                if t:
                    cnt += 1
                    try:
                        res = text_file_case(kind, t, trailing)
                    except Exception as e:  # noqa
                        res = ("text-file:message-boundary", "%s raised %s: %s" % (kind, exc_name(e), e))
                    report(ctx, res, {"kind": "text-file", "what": kind, "text": t, "trailing": trailing}, "text-file-widths")
    for _ in range(ctx.scale(600, 6000)):
        t, trailing, kind = rand_text(rng), rng.choice(TEXT_TRAILERS), rng.choice(["request", "response"])
        if t:
            cnt += 1
            try:
                res = text_file_case(kind, t, trailing)
            except Exception as e:  # noqa
                res = ("text-file:message-boundary", "%s raised %s: %s" % (kind, exc_name(e), e))
            report(ctx, res, {"kind": "text-file", "what": kind, "text": t, "trailing": trailing}, "text-file-widths")
    ctx.oracle_count("text-file-widths", cnt, cnt)
    k = ctx.scale(80, 400)
    for _ in range(k):
        res, case = blank_shapes_oracle(rng)
        report(ctx, res, case, "request-blank-shapes")
    ctx.oracle_count("request-blank-shapes", k, k)


def oracle_histories(ctx):
    """ONE long-lived object serving several calls (the statement treats every call as a function of its inputs)"""
    rng = ctx.sub_rng("oracle-history")
    n = ctx.scale(400, 6000)
    for _ in range(n):
        steps = rand_sub_history(rng, rng.randrange(3, 9))
        report(ctx, sub_request_history_oracle(steps), {"kind": "sub-history", "steps": steps}, "sub-request-history")
    ctx.oracle_count("sub-request-history", n, n)
    n = ctx.scale(500, 8000)
    for _ in range(n):
        E = rand_env(rng, wellformed=True)
        ops = [rng.choice(REQ_OPS) for _ in range(rng.randrange(3, 9))]
        report(ctx, request_reuse_oracle(E, ops), {"kind": "request-reuse", "env": jE(E), "ops": ops}, "request-reuse")
    ctx.oracle_count("request-reuse", n, n)
    for _ in range(n):
        st, hl, body = rand_resp(rng, latin=rng.random() < 0.5, textual=True)
        ops = [rng.choice(RESP_OPS) for _ in range(rng.randrange(3, 9))]
        report(ctx, response_reuse_oracle(st, hl, body, ops), dict(jresp(st, hl, body), kind="response-reuse", ops=ops), "response-reuse")
    ctx.oracle_count("response-reuse", n, n)
    m = ctx.scale(300, 4000)
    for _ in range(m):
        rs = [rand_resp(rng) for _ in range(rng.randrange(2, 5))]
        report(ctx, pipelined_responses(rs), {"kind": "pipelined-response", "messages": [
            {"status": a, "headers": [list(p) for p in b], "body": c.hex()} for a, b, c in rs]}, "pipelined")
        envs = []
        for _ in range(rng.randrange(2, 4)):
            E = rand_env(rng, wellformed=True)
            while not E["input"] or no_target(E):
                E = rand_env(rng, wellformed=True)        # a request without a body does not end with a line terminator
            envs.append(E)
        report(ctx, pipelined_requests(envs), {"kind": "pipelined-request", "envs": [jE(E) for E in envs]}, "pipelined")
    ctx.oracle_count("pipelined", 2 * m, 2 * m)
    k = ctx.scale(40, 300)
    for _ in range(k):
        res, case = order_independence_oracle(rng, 12)
        if res:
            ctx.fail(res[0], res[1], case, True, "order-independence")
    ctx.oracle_count("order-independence", k * 12 * 3, k * 12)


def replay(ctx, path):
    data = json.load(open(path))
    case = data["case"]
    kind = case.get("kind") if isinstance(case, dict) else None
    if kind == "api":
        res = api_request_case(case)
    elif kind == "order":
        res, _ = order_independence_oracle(fw.Ctx("C20", "quick", data.get("seed", 0)).sub_rng("oracle-history"), 12)
    elif kind in ("request", "response", "script", "sub-history", "response-config", "outside", "blank", "text-file", "request-reuse", "response-reuse", "pipelined-response",
                  "pipelined-request"):
        if kind == "request":
            case = dict(case, wellformed=True)
        res = run_case(case)
    else:
        print("replay: nothing executable in this file (broken obligation): %s" % data.get("what"))
        return 1
    if res:
        print("VIOLATION property=C20 replay=%s" % path)
        print("  (%s) %s" % (res[0], res[1][:600]))
        return 1
    print("replay passes on the current tree")
    return 0
