"""C16 — Signed cookies cannot be forged or altered.

Tie to the source: coq/Model/C16_signed.v (b64enc, b64dec, salted_secret, signed_dumps/loads,
b64ser_dumps/loads, get_value, get_headers, SignedCookieProfile wiring/bind) is compared with the real
webob.cookies on generated inputs.  hmac and json are external to the model: the harness records every
(key, msg) -> digest and cstruct -> value answer the REAL code obtained (by wrapping webob.cookies.hmac
and JSONSerializer from outside) and the model is evaluated on the same answers.

Oracle: the property's statement evaluated on the real public API against an independent reference
(stdlib hmac/base64/json used directly): round trips, every single-symbol substitution / insertion /
deletion, truncations, extensions, re-padding, splices, foreign secret/salt/digest, get_value through a
real Request, the Set-Cookie -> Cookie leg, and the 4093-byte limit.
"""
import base64
import binascii
import hashlib
import hmac as real_hmac
import json
import warnings

from harness import fw
from harness.fw import Err, cstr, clist, cpair, copt, cnat

warnings.simplefilter("ignore")

IMPORTS = ["Webob.Lib.PyStr", "Webob.Model.C16_signed"]
ALGS = ["sha1", "sha256", "sha512", "md5"]
class _DigestSizes(dict):
    def __missing__(self, alg):
        self[alg] = hashlib.new(alg).digest_size
        return self[alg]


DSIZE = _DigestSizes({"sha1": 20, "sha256": 32, "sha512": 64, "md5": 16})
ALPHABET = b"ABCDEFGHIJKLMNOPQRSTUVWXYZabcdefghijklmnopqrstuvwxyz0123456789-_"
OUTSIDE = [0x2B, 0x2F, 0x3D, 0x20, 0x0A, 0x00, 0xFF, 0x21, 0x2E, 0x3B, 0x22, 0x5C, 0x2C, 0x80, 0x7F, 0x25]
# (secret, salt): ASCII, latin-1, non-latin-1 (utf-8 fallback), empty / None salt, long secret
SECRETS = [("secret", "salt"), ("s3cr3t" * 12, "ns"), ("secret", ""), ("secret", None), ("s\xe9cret", "s\xe4lt"),
           ("sĀcret", "salt"), ("secret", "s€lt"), ("\U0001f600key", "\xe9"), ("k", "x"), ("", "")]
PAYLOADS = [None, True, False, 0, -1, 12345678901234567890, 0.5, 1e100, "", "x", "h\xe9llo € \U0001f600", 'q"uo\\te\n',
            [], [1, 2, 3], {}, {"a": 1}, {"user": "bob", "roles": ["admin", "dev"], "n": None}, [[[]]], "A" * 50,
            {"k": {"k": {"k": [1.25, "z"]}}}, "\ud800"]
NAMES = ["session", "auth_tkt", "a", "x-y.z"]


# --------------------------------------------------------------------------- reference (independent of webob)
def ref_key(secret, salt):
    """salted secret: latin-1 for str parts (bytes parts as they are), utf-8 for all str parts if one is not latin-1"""
    salt = salt or ""
    enc = lambda x, e: x if isinstance(x, bytes) else x.encode(e)  # noqa
    try:
        return enc(salt, "latin-1") + enc(secret, "latin-1")
    except UnicodeEncodeError:
        return enc(salt, "utf-8") + enc(secret, "utf-8")


def ref_ser(v):
    return json.dumps(v).encode("utf-8")


def ref_signed(secret, salt, alg, cstruct):
    return real_hmac.new(ref_key(secret, salt), cstruct, alg).digest() + cstruct


def ref_token(secret, salt, alg, v):
    return base64.urlsafe_b64encode(ref_signed(secret, salt, alg, ref_ser(v))).rstrip(b"=")


def ref_decode(t):
    """octets a token means after padding repair, or None (not latin-1 / not base64)"""
    if isinstance(t, str):
        try:
            t = t.encode("latin-1")
        except UnicodeEncodeError:
            return None
    try:
        return base64.urlsafe_b64decode(t + b"=" * (-len(t) % 4))
    except (binascii.Error, ValueError):
        return None


def canon(v):
    return json.dumps(v, sort_keys=True)


def same_value(a, b):
    return type(a) is type(b) and canon(a) == canon(b)


def exc_name(e):
    return "ValueError" if isinstance(e, ValueError) else type(e).__name__


def run_catch(f, *a):
    """(True, value) or (False, canonical exception name)"""
    try:
        return True, f(*a)
    except Exception as e:  # noqa
        return False, exc_name(e)


# --------------------------------------------------------------------------- recording of the external answers
class Rec:
    def __init__(self):
        self.mac, self.deser, self.ser = [], [], []


class _HmacProxy:
    def __init__(self, rec):
        self._rec = rec

    def new(self, key, msg=None, digestmod=""):
        h = real_hmac.new(key, msg, digestmod)
        try:
            self._rec.mac.append((bytes(key), bytes(msg if msg is not None else b""), h.digest()))
        except Exception:  # noqa
            pass
        return h

    def __getattr__(self, n):
        return getattr(real_hmac, n)


class recording:
    """Wrap hmac.new and JSONSerializer.loads/dumps as seen by webob.cookies; the real code still runs."""

    def __enter__(self):
        import webob.cookies as wc
        self.wc = wc
        self.rec = rec = Rec()
        self.saved = (wc.hmac, wc.JSONSerializer.loads, wc.JSONSerializer.dumps)
        o_loads, o_dumps = wc.JSONSerializer.loads, wc.JSONSerializer.dumps

        def loads(self_, bstruct):
            try:
                r = o_loads(self_, bstruct)
            except ValueError:
                rec.deser.append((bytes(bstruct), None))
                raise
            rec.deser.append((bytes(bstruct), canon(r)))
            return r

        def dumps(self_, appstruct):
            r = o_dumps(self_, appstruct)
            rec.ser.append((canon(appstruct), bytes(r)))
            return r

        wc.hmac = _HmacProxy(rec)
        wc.JSONSerializer.loads = loads
        wc.JSONSerializer.dumps = dumps
        return rec

    def __exit__(self, *a):
        self.wc.hmac, self.wc.JSONSerializer.loads, self.wc.JSONSerializer.dumps = self.saved


def c_mac_table(tb):
    return clist(cpair(cpair(cstr(k), cstr(m)), cstr(d)) for k, m, d in tb)


def c_deser_table(tb):
    return clist(cpair(cstr(c), copt(None if r is None else cstr(r))) for c, r in tb)


def vid(v):
    """identifier of a value on the model side of dumps (opaque there): canonical JSON text, hashed when long"""
    return v if len(v) < 200 else "sha1:" + hashlib.sha1(v.encode("utf-8")).hexdigest()


def c_ser_table(tb):
    return clist(cpair(cstr(vid(v)), cstr(c)) for v, c in tb)


def c_ss(secret, salt):
    return cpair(cstr(salt or ""), cstr(secret))


def c_jar(j):
    if j == "raises":
        return "JarRaises"
    if j is None:
        return "JarMissing"
    return "(JarValue %s)" % cstr(j)


def c_profile(secret, salt, name, domains):
    return "(mkSProfile %s %s %s %s None)" % (cstr(secret), cstr(salt or ""), cstr(name), clist(cstr(d) for d in domains))


def out_val(ok, r):
    """canonical observation of a loads-like call: canonical JSON text or Err"""
    return canon(r) if ok else Err(r)


# --------------------------------------------------------------------------- implementation adaptors
def make_serializer(secret, salt, alg):
    from webob.cookies import SignedSerializer
    return SignedSerializer(secret, salt, alg)


def make_profile(secret, salt, alg, name="session", domains=None):
    from webob.cookies import SignedCookieProfile
    return SignedCookieProfile(secret, salt, name, hashalg=alg, domains=domains)


def make_request(cookie_header):
    from webob import Request
    env = {"REQUEST_METHOD": "GET", "SCRIPT_NAME": "", "PATH_INFO": "/", "SERVER_NAME": "localhost", "SERVER_PORT": "80",
           "wsgi.url_scheme": "http", "SERVER_PROTOCOL": "HTTP/1.1"}
    if cookie_header is not None:
        env["HTTP_COOKIE"] = cookie_header          # WSGI: latin-1 native string
    return Request(env)


def jar_lookup(cookie_header, name):
    ok, r = run_catch(lambda: make_request(cookie_header).cookies.get(name))
    return r if ok else "raises"


# --------------------------------------------------------------------------- tampering
def tamper_stream(t, rng, per_pos_alphabet, per_pos_outside, t_other=None, dsize=0, signed=None, signed_other=None,
                  key=None, alg=None):
    """Yield (label, token') for alterations of the issued token t (bytes)."""
    n = len(t)
    for i in range(n):
        syms = list(ALPHABET) if per_pos_alphabet >= 64 else rng.sample(list(ALPHABET), per_pos_alphabet)
        outs = OUTSIDE if per_pos_outside >= len(OUTSIDE) else rng.sample(OUTSIDE, per_pos_outside)
        for c in syms + outs:
            if c != t[i]:
                yield "sub", t[:i] + bytes([c]) + t[i + 1:]
    for i in range(n + 1):
        for c in rng.sample(list(ALPHABET), 2) + rng.sample(OUTSIDE, 2):
            yield "ins", t[:i] + bytes([c]) + t[i:]
    for i in range(n):
        yield "del", t[:i] + t[i + 1:]
    for i in range(n):
        yield "trunc", t[:i]
    for ext in [b"=", b"==", b"===", b"====", b"A", b"AA", b"AAA", b"AAAA", b"==AAAA", b"=A", b"A=", b"\n", b" ", b"=\n", b"A==",
                b"-", b"_", b"+", b"/", b"=" * 7, b"QUJD", b"!!!!", b"\x00"]:
        yield "ext", t + ext
        yield "ext-front", ext + t
    for k in (1, 2, 3):
        if n > k:
            yield "repad", t[:-k] + b"=" * k
    for junk in (b"", b"=", b"==", b"====", b"!", b"\n", b"AA", b"AA==", b"AAA=", b"AAAA"):
        yield "degenerate", junk
    if signed is not None:
        sig, c = signed[:dsize], signed[dsize:]
        enc = lambda b: base64.urlsafe_b64encode(b).rstrip(b"=")  # noqa
        for k in sorted({0, 1, 4, 8, dsize // 2, dsize - 1} - {dsize}):
            yield "tag-prefix", enc(sig[:k] + c)                     # a prefix of the tag only
        if key is not None:
            for k in range(0, dsize):                                 # a short prefix of the tag of the EMPTY payload
                yield "empty-payload-tag-prefix", enc(real_hmac.new(key, b"", alg).digest()[:k])
        yield "tag-extended", enc(sig + b"\x00" + c)
        yield "payload-extended", enc(sig + c + b" ")
        yield "payload-truncated", enc(sig + c[:-1])
        yield "no-tag", enc(c)
        yield "tag-only", enc(sig)
        yield "tag-bitflip", enc(bytes([sig[0] ^ 1]) + sig[1:] + c)
        yield "tag-last-bitflip", enc(sig[:-1] + bytes([sig[-1] ^ 0x80]) + c)
        yield "payload-bitflip", enc(sig + bytes([c[0] ^ 1]) + c[1:])
        yield "padded-canonical", base64.urlsafe_b64encode(signed)      # same octets, padding kept
        yield "std-alphabet", base64.b64encode(signed).rstrip(b"=")     # same octets, '+' '/' spelling
        yield "junk-inside", enc(signed)[:5] + b"\n!" + enc(signed)[5:]  # same octets only if padding still fits
        if signed_other is not None:
            so, co = signed_other[:dsize], signed_other[dsize:]
            yield "splice-tag1-payload2", enc(sig + co)
            yield "splice-tag2-payload1", enc(so + c)
            yield "splice-concat", enc(signed + signed_other)
    if t_other is not None:
        for i in range(0, min(len(t), len(t_other)) + 1):
            yield "splice-symbols", t[:i] + t_other[i:]


def check_loads_case(case):
    """The statement for one (loader config, presented token): None if it holds, else (key, message).
    case: secret, salt, alg, token (hex of latin-1 bytes, or text if 'token_text'), value (JSON text) = the value the
    token was derived from, issuer = [secret, salt, alg] of the issuing serializer (defaults to the loader)."""
    secret, salt, alg = case["secret"], case["salt"], case["alg"]
    tok = case["token_text"] if "token_text" in case else bytes.fromhex(case["token"])
    v = json.loads(case["value"])
    s = make_serializer(secret, salt, alg)
    ok, r = run_catch(s.loads, tok)
    d = ref_decode(tok)
    mine = ref_signed(secret, salt, alg, ref_ser(v))     # the octets the loader itself would issue for v
    shown = case.get("token_text", None) or tok
    # the same token through a serializer that is the identity on bytes (no JSON parser to hide an acceptance):
    # the payload comes back iff the token carries a full-length valid tag
    from webob.cookies import SignedSerializer
    ok2, r2 = run_catch(SignedSerializer(secret, salt, alg, serializer=RawSerializer()).loads, tok)
    ds_ = DSIZE[alg]
    valid = d is not None and len(d) >= ds_ and real_hmac.compare_digest(
        real_hmac.new(ref_key(secret, salt), d[ds_:], alg).digest(), d[:ds_])
    if ok2 and not valid:
        return "loads:signature-check-passed-without-valid-tag", (
            "with a pass-through serializer loads(%r) returned %r although the token carries no full-length valid tag "
            "(%s/%r/%r)" % (shown, r2, alg, secret, salt))
    if valid and not (ok2 and r2 == d[ds_:]):
        return "loads:valid-token-rejected", "with a pass-through serializer loads(%r) gave %r for a validly signed token" % (shown, r2)
    if not ok2 and r2 != "ValueError":
        return "loads:wrong-exception", "loads(%r) raised %s, not ValueError" % (shown, r2)
    if not ok:
        if r != "ValueError":
            return "loads:wrong-exception", "loads(%r) raised %s, not ValueError (%s/%r/%r)" % (shown, r, alg, secret, salt)
        if d == mine:
            return "loads:rejected-identical-bytes", ("loads(%r) raised ValueError although the token decodes to the signed "
                                                      "octets of %s (%s/%r/%r)" % (shown, case["value"], alg, secret, salt))
        return None
    if d == mine:
        if not same_value(r, v):
            return "loads:returned-other-value", "loads(%r) returned %r for the signed octets of %s" % (shown, r, case["value"])
        return None
    # accepted although the token does not decode to the octets signed for v under the loader's configuration
    ds = DSIZE[alg]
    genuine = d is not None and len(d) >= ds and real_hmac.compare_digest(
        real_hmac.new(ref_key(secret, salt), d[ds:], alg).digest(), d[:ds])
    if genuine:
        # a token that is itself validly issued under the loader's configuration (e.g. the other token of a splice):
        # the value that was signed must come back
        try:
            signed_v = json.loads(d[ds:].decode("utf-8"))
        except ValueError:
            return "loads:returned-value-for-non-json", "loads(%r) returned %r for a payload that is not JSON" % (shown, r)
        if not same_value(r, signed_v):
            return "loads:returned-other-value", "loads(%r) returned %r; the signed payload is %r" % (shown, r, d[ds:])
        return None
    if same_value(r, v):
        return "loads:accepted-altered-bytes", ("loads(%r) returned the value although the token decodes to %r, not to "
                                                "tag+payload issued under %s/%r/%r" % (shown, d, alg, secret, salt))
    return "loads:returned-other-value", "loads(%r) returned %r; signed value was %s" % (shown, r, case["value"])


def check_roundtrip_case(case):
    secret, salt, alg = case["secret"], case["salt"], case["alg"]
    v = json.loads(case["value"])
    ok, s = run_catch(make_serializer, secret, salt, alg)
    if not ok:
        return "roundtrip:constructor-raises", "SignedSerializer(%r, %r, %r) raised %s" % (secret, salt, alg, s)
    ok, t = run_catch(s.dumps, v)
    if not ok:
        return "roundtrip:dumps-raises", "dumps(%s) raised %s" % (case["value"], t)
    if ref_decode(t) != ref_signed(secret, salt, alg, ref_ser(v)) or not all(c in ALPHABET + b"=" for c in t):
        return "roundtrip:token-not-tag-plus-payload", ("dumps(%s) = %r is not base64url(HMAC-%s(salt+secret, json) + json) "
                                                        "(%r/%r)" % (case["value"], t, alg, secret, salt))
    for form in (t, t.decode("ascii")):
        ok, r = run_catch(s.loads, form)
        if not ok or not same_value(r, v):
            return "roundtrip:loads-dumps", "loads(dumps(%s)) gave %r (%s/%r/%r)" % (case["value"], r, alg, secret, salt)
    return None


def cookie_spellings(tok, name, rng):
    """Ways a client can present the octets tok as the value of cookie `name` (latin-1 header text)."""
    safe = all(c in ALPHABET or c in b"=+/.!" for c in tok)
    out = []
    if safe:
        out.append("%s=%s" % (name, tok.decode("latin-1")))
        out.append("a=1; %s=%s; zz=2" % (name, tok.decode("latin-1")))
    quoted = "".join(chr(c) if (32 <= c < 127 and c not in b'"\\') or c >= 128 else "\\%03o" % c for c in tok)
    out.append('%s="%s"' % (name, quoted))
    out.append("%s=%s" % (name, "".join(chr(c) if c in ALPHABET else "\\%03o" % c for c in tok)))
    return out


def check_get_value_case(case):
    """get_value on a real Request: never raises, returns None or the signed value (the latter only when the cookie
    delivered decodes to the signed octets)."""
    secret, salt, alg, name = case["secret"], case["salt"], case["alg"], case["name"]
    header = case["header"]
    v = json.loads(case["value"])
    p = make_profile(secret, salt, alg, name)
    how = case.get("bind", "bind")
    req = make_request(header)
    bound = p.bind(req) if how == "bind" else p(req)
    try:
        ok, r = True, bound.get_value()
    except Exception as e:  # noqa
        ok, r = False, type(e).__name__
    delivered = jar_lookup(header, name)
    if not ok:
        if delivered == "raises":
            return "get_value:raises-on-undecodable-cookie", ("get_value() raised %s for Cookie: %r (request.cookies cannot "
                                                              "decode it); the property says None" % (r, header))
        return "get_value:raises", "get_value() raised %s for Cookie: %r" % (r, header)
    d = None if delivered in (None, "raises") else ref_decode(delivered)
    mine = ref_signed(secret, salt, alg, ref_ser(v))
    if d == mine:
        if not same_value(r, v):
            return "get_value:lost-valid-cookie", "get_value() = %r for Cookie: %r carrying the signed octets" % (r, header)
        return None
    if r is not None:
        return "get_value:accepted-altered-cookie", "get_value() = %r for Cookie: %r (not the signed octets)" % (r, header)
    return None


def browser_echo(set_cookie_value):
    """What a user agent sends back: the name=value pair in front of the first ';'."""
    return set_cookie_value.split(";", 1)[0]


def check_profile_roundtrip_case(case):
    secret, salt, alg, name = case["secret"], case["salt"], case["alg"], case["name"]
    v = json.loads(case["value"])
    domains = case.get("domains") or None
    if v is None:
        return None            # get_headers(None) / set_cookies(None) mean "delete the cookie": nothing to round-trip
    from webob import Response
    p = make_profile(secret, salt, alg, name, domains)
    resp = Response()
    ok, r = run_catch(p.set_cookies, resp, v)
    if not ok:
        return "profile:set-cookies-raises", "set_cookies(%s) raised %s" % (case["value"], r)
    hs = [h for k, h in resp.headerlist if k == "Set-Cookie"]
    if len(hs) != (len(domains) if domains else 1):
        return "profile:set-cookie-count", "%d Set-Cookie headers for domains=%r" % (len(hs), domains)
    if hs != [h for _, h in p.get_headers(v)]:
        return "profile:set-cookies-vs-get-headers", "set_cookies and get_headers disagree"
    for h in hs:
        pair = browser_echo(h)
        if pair != "%s=%s" % (name, ref_token(secret, salt, alg, v).decode("ascii")):
            return "profile:set-cookie-pair", "Set-Cookie %r does not carry name=token unchanged" % (h,)
        for others in ("%s", "other=1; %s", "%s; z=\"q q\"", "a=b;%s;c=d"):
            header = others % pair
            for how in ("bind", "call"):
                req = make_request(header)
                bound = p.bind(req) if how == "bind" else p(req)
                ok, r = run_catch(bound.get_value)
                if not ok or not same_value(r, v):
                    return "profile:roundtrip", ("value %s set as %r, echoed as Cookie: %r, read back as %r (%s/%r/%r)"
                                                 % (case["value"], h, header, r, alg, secret, salt))
    return None


def payload_for_token_len(secret, salt, alg, target):
    """A JSON string value whose signed token has exactly `target` symbols, or None."""
    ds = DSIZE[alg]
    for n in range(max(0, target * 3 // 4 - ds - 8), target * 3 // 4 - ds + 8):
        if n >= 2 and (4 * (ds + n) + 2) // 3 == target:
            return "x" * (n - 2)            # json.dumps adds the two quotes
    return None


def check_limit_case(case):
    secret, salt, alg, name = case["secret"], case["salt"], case["alg"], case["name"]
    v = "x" * case["n"]
    p = make_profile(secret, salt, alg, name, case.get("domains") or None)
    tlen = len(ref_token(secret, salt, alg, v))
    from webob import Response
    for what, f in (("get_headers", lambda: p.get_headers(v)), ("set_cookies", lambda: p.set_cookies(Response(), v).headerlist)):
        ok, r = run_catch(f)
        if tlen > 4093:
            if ok:
                return "limit:long-value-accepted", "%s accepted a %d-byte serialisation (limit 4093)" % (what, tlen)
            if r != "ValueError":
                return "limit:wrong-exception", "%s raised %s for a %d-byte serialisation" % (what, r, tlen)
        elif not ok:
            return "limit:short-value-refused", "%s raised %s for a %d-byte serialisation (limit 4093)" % (what, r, tlen)
    return None


class RawSerializer:
    """identity on bytes: lets a serialisation have any length"""

    def dumps(self, v):
        return v

    def loads(self, b):
        return b


def raw_profile(name, domains):
    from webob.cookies import CookieProfile
    return CookieProfile(name, domains=domains or None, serializer=RawSerializer())


def check_rawlimit_case(case):
    from webob import Response
    n = case["n"]
    p = raw_profile(case["name"], case.get("domains"))
    for what, f in (("get_headers", lambda: p.get_headers(b"A" * n)), ("set_cookies", lambda: p.set_cookies(Response(), b"A" * n))):
        ok, r = run_catch(f)
        if n > 4093:
            if ok:
                return "limit:long-value-accepted", "%s accepted a %d-byte serialisation (limit 4093)" % (what, n)
            if r != "ValueError":
                return "limit:wrong-exception", "%s raised %s for a %d-byte serialisation" % (what, r, n)
        elif not ok:
            return "limit:short-value-refused", "%s raised %s for a %d-byte serialisation (limit 4093)" % (what, r, n)
    return None


def check_plain_case(case):
    """Plain CookieProfile / Base64Serializer: round trip, ValueError-only errors, get_value None on garbage."""
    from webob.cookies import Base64Serializer, CookieProfile
    s = Base64Serializer()
    if case["sub"] == "roundtrip":
        v = json.loads(case["value"])
        ok, r = run_catch(lambda: s.loads(s.dumps(v)))
        if not ok or not same_value(r, v):
            return "b64ser:roundtrip", "Base64Serializer loads(dumps(%s)) = %r" % (case["value"], r)
        p = CookieProfile("c")
        h = p.get_headers(v)[0][1]
        ok, r = run_catch(p.bind(make_request(browser_echo(h))).get_value)
        if not ok or not same_value(r, v):
            return "plain-profile:roundtrip", "CookieProfile round trip of %s gave %r" % (case["value"], r)
        return None
    if case["sub"] == "custom":
        # documented use: CookieProfile(name, serializer=SignedSerializer(...)); the bound copy must keep the serializer
        v = json.loads(case["value"])
        secret, salt, alg = case["secret"], case["salt"], case["alg"]
        p = CookieProfile("c", serializer=make_serializer(secret, salt, alg))
        if v is not None:
            h = p.get_headers(v)[0][1]
            ok, r = run_catch(p.bind(make_request(browser_echo(h))).get_value)
            if not ok or not same_value(r, v):
                return "custom-profile:roundtrip", "CookieProfile(serializer=SignedSerializer) round trip of %s gave %r" % (case["value"], r)
        forged = {"forged": v}
        for tok in (base64.urlsafe_b64encode(ref_ser(forged)), base64.urlsafe_b64encode(ref_ser(forged)).rstrip(b"="),
                    ref_token(secret + "x", salt, alg, forged)):
            for bound in (p.bind(make_request("c=" + tok.decode("ascii"))), p(make_request("c=" + tok.decode("ascii")))):
                ok, r = run_catch(bound.get_value)
                if not ok or r is not None:
                    return "custom-profile:accepted-unsigned", ("CookieProfile(serializer=SignedSerializer).bind(req).get_value() = %r "
                                                                "for the unsigned/foreign cookie %r" % (r, tok))
        return None
    tok = bytes.fromhex(case["token"])
    ok, r = run_catch(s.loads, tok)
    if not ok and r != "ValueError":
        return "b64ser:wrong-exception", "Base64Serializer.loads(%r) raised %s" % (tok, r)
    d = None
    try:
        d = base64.urlsafe_b64decode(tok)
    except Exception:  # noqa
        pass
    exp = None
    if d is not None:
        try:
            exp = (json.loads(d.decode("utf-8")),)
        except ValueError:
            exp = None
    if (exp is None) != (not ok) or (ok and not same_value(r, exp[0])):
        return "b64ser:loads", "Base64Serializer.loads(%r) = %r, reference %r" % (tok, r, exp)
    return None


def check_echo_case(case):
    """The browser leg assumed by C16_profile_roundtrip: a value over the base64url alphabet is emitted
    unquoted by make_cookie and read back unchanged from the Cookie header."""
    from webob.cookies import make_cookie
    name, tok = case["name"], case["tok"]
    for dom in (None, "example.com"):
        h = make_cookie(name, tok.encode("ascii"), domain=dom)
        exp = "%s=%s%s; Path=/" % (name, tok, "; Domain=" + dom if dom else "")
        if h != exp:
            return "echo:make-cookie", "make_cookie(%r, %r) = %r, expected %r" % (name, tok, h, exp)
        got = jar_lookup(browser_echo(h), name)
        if got != tok:
            return "echo:cookie-parse", "Cookie: %r read back as %r" % (browser_echo(h), got)
    return None


# --------------------------------------------------------------------------- long-lived objects (statefulness)
# One SignedSerializer / Base64Serializer / CookieProfile / SignedCookieProfile instance serves a long interleaving of
# different calls; every answer must equal what a brand-new, identically constructed object answers for that single call
# (and, for loads / get_value / dumps, what the independent reference says), read-only calls must leave the object's
# attributes alone, and bound copies must not affect the unbound profile or each other.
LONG_SECRETS = [("a" * 150 + "1", "salt"), ("a" * 150 + "2", "salt"), ("k", "s" * 140 + "1"), ("k", "s" * 140 + "2"),
                ("\xe9" * 70 + "1", "ns"), ("\xe9" * 70 + "2", "ns")]


def ref_loads(secret, salt, alg, tok):
    """(True, canonical value) iff the token carries a full-length valid tag over JSON, else (False, 'ValueError')"""
    d = ref_decode(tok)
    ds = DSIZE[alg]
    if d is None or len(d) < ds or not real_hmac.compare_digest(real_hmac.new(ref_key(secret, salt), d[ds:], alg).digest(), d[:ds]):
        return False, "ValueError"
    try:
        return True, canon(json.loads(d[ds:].decode("utf-8")))
    except ValueError:
        return False, "ValueError"


def ref_b64_loads(tok):
    if isinstance(tok, str):
        try:
            tok = tok.encode("latin-1")
        except UnicodeEncodeError:
            return False, "ValueError"
    try:
        return True, canon(json.loads(base64.urlsafe_b64decode(tok).decode("utf-8")))
    except ValueError:
        return False, "ValueError"


def ref_obs(ok, r):
    return ["value", r] if ok else ["raises", r]


def obs(ok, r):
    """canonical, comparable form of one answer"""
    if not ok:
        return ["raises", r]
    if isinstance(r, (bytes, bytearray)):
        return ["bytes", bytes(r).hex()]
    return ["value", canon(r)]


def obs_headers(ok, r):
    return ["headers", [str(x) for x in r]] if ok else ["raises", r]


def ser_snapshot(s):
    from webob.cookies import SignedSerializer
    if isinstance(s, SignedSerializer):
        return ["signed", repr(s.salt), repr(s.secret), s.hashalg, s.salted_secret.hex(), s.digest_size,
                type(s.serializer).__name__]
    return [type(s).__name__, type(getattr(s, "serializer", None)).__name__]


def profile_snapshot(p):
    return [type(p).__name__, p.cookie_name, repr(p.secure), repr(p.max_age), repr(p.httponly), repr(p.samesite), p.path,
            repr(p.domains), ser_snapshot(p.serializer)] + \
        ([repr(p.secret), repr(p.salt), p.hashalg] if hasattr(p, "hashalg") else [])


def new_object(case):
    """the long-lived object of a history, freshly constructed"""
    from webob.cookies import Base64Serializer, CookieProfile
    secret, salt, alg, obj = case["secret"], case["salt"], case["alg"], case["obj"]
    name, domains = case.get("name", "session"), case.get("domains") or None
    if obj == "serializer":
        return make_serializer(secret, salt, alg)
    if obj == "b64ser":
        return Base64Serializer()
    if obj == "signed-profile":
        return make_profile(secret, salt, alg, name, domains)
    if obj == "custom-profile":
        return CookieProfile(name, domains=domains, serializer=make_serializer(secret, salt, alg))
    if obj == "plain-profile":
        return CookieProfile(name, domains=domains)
    raise ValueError(obj)


def tok_of(op):
    return op[1] if op[2] == "str" else bytes.fromhex(op[1])


def serializer_call(s, op):
    if op[0] == "dumps":
        return obs(*run_catch(s.dumps, json.loads(op[1])))
    return obs(*run_catch(s.loads, tok_of(op)))


def profile_expect_get(case, header):
    """reference answer of get_value for the profile kind of `case` bound to a request with Cookie: header"""
    delivered = jar_lookup(header, case.get("name", "session"))
    if delivered in (None, "raises"):
        return ["value", "null"]
    if case["obj"] == "plain-profile":
        ok, r = ref_b64_loads(delivered)
    else:
        ok, r = ref_loads(case["secret"], case["salt"], case["alg"], delivered)
    return ["value", r if ok else "null"]


def check_history_case(case):
    """None, or (key, message) for the first step whose answer differs from a fresh object's / the reference's, or that
    changed the state of the long-lived object or of another bound copy."""
    from webob import Response
    obj = case["obj"]
    x = new_object(case)
    is_profile = obj.endswith("profile")
    snap = profile_snapshot(x) if is_profile else ser_snapshot(x)
    bound = []          # [bound copy, its request, snapshot]
    for k, op in enumerate(case["ops"]):
        where = "step %d %r on one long-lived %s (%s/%r/%r)" % (k, op, obj, case["alg"], case["secret"], case["salt"])
        if not is_profile:
            got = serializer_call(x, op)
            fresh = serializer_call(new_object(case), op)
            ref = None
            if op[0] == "loads":
                ref = ref_obs(*(ref_loads(case["secret"], case["salt"], case["alg"], tok_of(op)) if obj == "serializer"
                                else ref_b64_loads(tok_of(op))))
            elif obj == "serializer" and got[0] == "bytes":
                # compared on the octets the issued token stands for
                got_d = ref_decode(bytes.fromhex(got[1]))
                if got_d != ref_signed(case["secret"], case["salt"], case["alg"], ref_ser(json.loads(op[1]))):
                    return "history:answer-differs-from-reference", "%s issued %r, which is not tag+payload" % (where, got)
            if got != fresh:
                return "history:answer-differs-from-fresh-object", "%s: %r, a fresh object answers %r" % (where, got, fresh)
            if ref is not None and got != ref:
                return "history:answer-differs-from-reference", "%s: %r, reference %r" % (where, got, ref)
            if ser_snapshot(x) != snap:
                return "history:object-state-changed", "%s changed the object's attributes: %r -> %r" % (where, snap, ser_snapshot(x))
            continue
        # ---- profiles
        t = op[0]
        if t in ("get_headers", "set_cookies"):
            v = json.loads(op[1])
            f = (lambda p: [h for _, h in p.get_headers(v)]) if t == "get_headers" else \
                (lambda p: [h for n_, h in p.set_cookies(Response(), v).headerlist if n_ == "Set-Cookie"])
            got, fresh = obs_headers(*run_catch(f, x)), obs_headers(*run_catch(f, new_object(case)))
        elif t == "unbound_get":
            got, fresh = obs(*run_catch(x.get_value)), ["raises", "ValueError"]
        elif t == "bind":
            req = make_request(op[1])
            b = x.bind(req) if op[2] == "bind" else x(req)
            bound.append([b, req, profile_snapshot(b)])
            got = obs(*run_catch(b.get_value))
            fresh = obs(*run_catch(new_object(case).bind(make_request(op[1])).get_value))
            ref = profile_expect_get(case, op[1])
            if got != ref:
                return "history:answer-differs-from-reference", "%s: %r, reference %r" % (where, got, ref)
        elif t in ("requery", "recookie"):
            if not bound:
                continue
            b, req, _ = bound[op[1] % len(bound)]
            if t == "recookie":
                if op[2] is None:
                    req.environ.pop("HTTP_COOKIE", None)
                else:
                    req.environ["HTTP_COOKIE"] = op[2]
            header = req.environ.get("HTTP_COOKIE")
            got = obs(*run_catch(b.get_value))
            fresh = obs(*run_catch(new_object(case).bind(make_request(header)).get_value))
            ref = profile_expect_get(case, header)
            if got != ref:
                return "history:answer-differs-from-reference", "%s (Cookie now %r): %r, reference %r" % (where, header, got, ref)
        else:
            raise ValueError(op)
        if got != fresh:
            return "history:answer-differs-from-fresh-object", "%s: %r, a fresh object answers %r" % (where, got, fresh)
        if profile_snapshot(x) != snap or x.request is not None:
            return "history:unbound-profile-changed", "%s changed the unbound profile: %r -> %r (request %r)" % (
                where, snap, profile_snapshot(x), x.request)
        for j, (b, req, bsnap) in enumerate(bound):
            if profile_snapshot(b) != bsnap or b.request is not req:
                return "history:bound-copy-changed", "%s changed bound copy #%d: %r -> %r" % (where, j, bsnap, profile_snapshot(b))
    return None


def check_order_case(case):
    """Single calls on fresh objects, executed in the given order within one process: each answer must be the
    reference's whatever was executed before (module-level state)."""
    for k, c in enumerate(case["calls"]):
        secret, salt, alg = c["secret"], c["salt"], c["alg"]
        if c["call"] == "loads":
            tok = bytes.fromhex(c["token"])
            got = obs(*run_catch(make_serializer(secret, salt, alg).loads, tok))
            ref = ref_obs(*ref_loads(secret, salt, alg, tok))
        elif c["call"] == "dumps":
            got = obs(*run_catch(make_serializer(secret, salt, alg).dumps, json.loads(c["value"])))
            ref = got
            if got[0] != "bytes" or ref_decode(bytes.fromhex(got[1])) != ref_signed(secret, salt, alg, ref_ser(json.loads(c["value"]))):
                ref = ["bytes", ref_token(secret, salt, alg, json.loads(c["value"])).hex()]
        else:
            got = obs(*run_catch(make_profile(secret, salt, alg, "session").bind(make_request(c["header"])).get_value))
            ref = profile_expect_get({"obj": "signed-profile", "secret": secret, "salt": salt, "alg": alg}, c["header"])
        if got != ref:
            return "order:answer-depends-on-earlier-calls", ("call #%d %r answered %r, reference %r, after the %d earlier calls of "
                                                             "this sequence" % (k, c, got, ref, k))
    return None


def shrink_history(case, check):
    """greedy removal of operations while the case still fails (keeps replays short)"""
    key = check(case)
    if not key:
        return case
    field = "ops" if "ops" in case else "calls"
    ops = list(case[field])
    i = len(ops) - 1
    budget = 400
    while i >= 0 and budget > 0:
        trial = dict(case, **{field: ops[:i] + ops[i + 1:]})
        budget -= 1
        r = check(trial)
        if r and r[0] == key[0]:
            ops = trial[field]
        i -= 1
    return dict(case, **{field: ops})


def token_pool(secret, salt, alg, rng, plain=False):
    """valid, tampered (incl. same long prefix), foreign and junk tokens for one configuration"""
    vals = [rng.choice(PAYLOADS[1:-1]) for _ in range(2)] + [{"n": rng.randrange(100)}, rand_json(rng)]
    own = [base64.urlsafe_b64encode(ref_ser(v)) if plain else ref_token(secret, salt, alg, v) for v in vals]
    pool = list(own)
    for t in own:
        last = bytes([ALPHABET[(ALPHABET.index(t[-1]) + 17) % 64]]) if t[-1:] != b"=" else b"A"
        pool += [t[:-1] + last, t[:-2], t + b"A", t + b"==", mutate_bytes(rng, t), t[:len(t) // 2] + own[0][len(t) // 2:]]
    if not plain:
        s2 = secret[:-1] + chr(ord(secret[-1]) ^ 1) if secret else "x"
        l2 = (salt[:-1] + chr(ord(salt[-1]) ^ 1)) if salt else "x"
        for v in vals[:2]:
            pool += [ref_token(s2, salt, alg, v), ref_token(secret, l2, alg, v), ref_token(secret, salt, ALGS[(ALGS.index(alg) + 1) % 4], v),
                     base64.urlsafe_b64encode(ref_ser(v))]
    pool += [rand_junk(rng), b"", b"="]
    return vals, own, pool


def gen_history(rng, obj, secret, salt, alg, length):
    name = rng.choice(NAMES)
    case = {"kind": "history", "obj": obj, "secret": secret, "salt": salt, "alg": alg, "name": name,
            "domains": rng.choice([[], [], ["example.com"]])}
    vals, own, pool = token_pool(secret, salt, alg, rng, plain=obj in ("b64ser", "plain-profile"))
    ops = []
    for _ in range(length):
        if not obj.endswith("profile"):
            r = rng.random()
            if r < 0.25:
                ops.append(["dumps", json.dumps(rng.choice(vals))])
            else:
                tok = rng.choice(own) if rng.random() < 0.4 else rng.choice(pool)
                if rng.random() < 0.25:
                    ops.append(["loads", tok.decode("latin-1") + rng.choice(["", "", "Ā"]), "str"])
                else:
                    ops.append(["loads", tok.hex(), "bytes"])
        else:
            r = rng.random()
            tok = rng.choice(own) if rng.random() < 0.45 else rng.choice(pool)
            header = rng.choice(cookie_spellings(tok, name, rng) + [None, "other=1"])
            if r < 0.12:
                ops.append(["get_headers", json.dumps(rng.choice(vals))])
            elif r < 0.22:
                ops.append(["set_cookies", json.dumps(rng.choice(vals))])
            elif r < 0.28:
                ops.append(["unbound_get"])
            elif r < 0.62:
                ops.append(["bind", header, rng.choice(["bind", "call"])])
            elif r < 0.8:
                ops.append(["requery", rng.randrange(50)])
            else:
                ops.append(["recookie", rng.randrange(50), header])
    case["ops"] = ops
    return case


def clean_run(case):
    """run a history from the module state a new process has, so that what fails here fails in its replay"""
    fresh_module()
    return run_case(case)


def histories(ctx):
    rng = ctx.sub_rng("histories")
    pairs = list(SECRETS[:6]) + LONG_SECRETS
    n_hist, length = ctx.scale(3, 20), ctx.scale(40, 150)
    cnt = 0
    for obj in ("serializer", "b64ser", "signed-profile", "custom-profile", "plain-profile"):
        for i in range(n_hist * (1 if obj in ("b64ser", "plain-profile") else 4)):
            secret, salt = pairs[(i * 5 + len(obj)) % len(pairs)]
            case = gen_history(rng, obj, secret, salt, ALGS[i % 4], length)
            cnt += 1
            res = clean_run(case)
            if res:
                small = shrink_history(case, clean_run)
                res = clean_run(small) or res
                ctx.fail(res[0], res[1], small, True, "histories")
    ctx.oracle_count("histories", cnt, cnt)
    # module-level state: the same single calls in several orders within this process
    calls = []
    for (secret, salt) in [("secret", "salt"), ("secret", "salt2"), ("secret2", "salt")] + LONG_SECRETS[:2]:
        for alg in ("sha256", "sha512"):
            vals, own, pool = token_pool(secret, salt, alg, rng)
            for t in own[:2] + rng.sample(pool, 4):
                calls.append({"call": "loads", "secret": secret, "salt": salt, "alg": alg, "token": t.hex()})
                calls.append({"call": "get_value", "secret": secret, "salt": salt, "alg": alg,
                              "header": rng.choice(cookie_spellings(t, "session", rng))})
            calls.append({"call": "dumps", "secret": secret, "salt": salt, "alg": alg, "value": json.dumps(vals[0])})
    # the same tokens presented to every other configuration as well
    toks = [c["token"] for c in calls if c["call"] == "loads"][::3]
    for c0 in [c for c in calls if c["call"] == "dumps"]:
        for t in toks[:8]:
            calls.append({"call": "loads", "secret": c0["secret"], "salt": c0["salt"], "alg": c0["alg"], "token": t})
    cnt = 0
    for perm in range(ctx.scale(4, 12)):
        order = list(calls)
        if perm == 1:
            order.reverse()
        elif perm > 1:
            rng.shuffle(order)
        case = {"kind": "order", "calls": order}
        cnt += 1
        res = clean_run(case)
        if res:
            small = shrink_history(case, clean_run)
            res = clean_run(small) or res
            ctx.fail(res[0], res[1], small, True, "order")
    ctx.oracle_count("order", cnt, cnt)


# --------------------------------------------------------------------------- configurations, argument shapes, value domains
# Knobs the code of this property reads: SignedSerializer(secret, salt, hashalg, serializer); CookieProfile /
# SignedCookieProfile(cookie_name, secure, max_age, httponly, samesite, path, domains, hashalg, serializer), the same as
# per-call overrides of get_headers / set_cookies and as attributes set after construction; module flags
# webob.cookies.SAMESITE_VALIDATION and _should_raise; the request class and the response the cookies are set on.
ALGS_EXT = ALGS + ["sha224", "sha384", "sha3_256", "blake2b", "blake2s", "SHA256"]
ATTR_SETS = [
    {}, {"secure": True}, {"httponly": True}, {"max_age": 3600}, {"path": "/app"}, {"samesite": "lax"},
    {"samesite": "Strict", "secure": True, "httponly": True, "max_age": 0, "path": "/a b;c"},
    {"samesite": "none", "secure": True}, {"samesite": b"lax", "max_age": "60"}, {"path": None},
    {"samesite": "none"},                      # without secure: refused by make_cookie (ValueError)
    {"samesite": "weird"},                     # refused under SAMESITE_VALIDATION, emitted without it
]


def plain(x):
    """JSON form of a secret / salt that may be bytes"""
    return {"b": x.hex()} if isinstance(x, bytes) else x


def unplain(x):
    return bytes.fromhex(x["b"]) if isinstance(x, dict) else x


def build_profile(case, how):
    """SignedCookieProfile for `case`, its cookie attributes supplied the way `how` says"""
    from webob.cookies import SignedCookieProfile, JSONSerializer
    secret, salt, alg, name = unplain(case["secret"]), unplain(case["salt"]), case["alg"], case["name"]
    attrs = dict(case["attrs"])
    doms = case.get("domains")
    if doms is not None:
        doms = {"list": list, "tuple": tuple}[case.get("domains_type", "list")](doms)
    ser = {"none": None, "json": JSONSerializer(), "raw": RawSerializer()}[case.get("serializer", "none")]
    full = dict(secure=False, max_age=None, httponly=False, samesite=None, path="/")
    full.update(attrs)
    if how == "ctor-kw":
        kw = dict(attrs)
        if doms is not None:
            kw["domains"] = doms
        if ser is not None:
            kw["serializer"] = ser
        return SignedCookieProfile(secret=secret, salt=salt, cookie_name=name, hashalg=alg, **kw)
    if how == "ctor-pos":
        return SignedCookieProfile(secret, salt, name, full["secure"], full["max_age"], full["httponly"], full["samesite"],
                                   full["path"], doms, alg, ser)
    if how == "after":
        p = SignedCookieProfile(secret, salt, "placeholder", hashalg=alg, serializer=ser)
        p.cookie_name = name
        p.domains = doms
        for k, v in attrs.items():
            setattr(p, k, v)
        return p
    if how == "call":
        return SignedCookieProfile(secret, salt, name, hashalg=alg, serializer=ser)
    raise ValueError(how)


def expected_cookie_error(attrs, validation):
    ss = attrs.get("samesite")
    if ss is None:
        return False
    ss = ss.decode() if isinstance(ss, bytes) else ss
    if validation and ss.lower() not in ("strict", "lax", "none"):
        return True
    return ss.lower() == "none" and not attrs.get("secure")


def check_config_case(case):
    """Round trip, rejection and bind() wiring of a SignedCookieProfile under one configuration."""
    import webob.cookies as wc
    from webob import Request, Response, BaseRequest
    from webob.exc import HTTPFound
    secret, salt, alg, name = unplain(case["secret"]), unplain(case["salt"]), case["alg"], case["name"]
    attrs, how = dict(case["attrs"]), case["how"]
    raw = case.get("serializer") == "raw"
    v = bytes.fromhex(case["value"]["b"]) if raw else json.loads(case["value"])
    if v is None:
        return None            # get_headers(None) means "delete the cookie"
    cstruct = v if raw else ref_ser(v)
    token = base64.urlsafe_b64encode(ref_signed(secret, salt, alg, cstruct)).rstrip(b"=").decode("ascii")
    saved = (wc.SAMESITE_VALIDATION, wc._should_raise)
    wc.SAMESITE_VALIDATION = case.get("samesite_validation", True)
    wc._should_raise = case.get("should_raise", None)
    try:
        p = build_profile(case, how)
        call_kw = dict(attrs) if how == "call" else {}
        if how == "call" and case.get("domains") is not None:
            call_kw["domains"] = list(case["domains"])
        ok, hs = run_catch(lambda: p.get_headers(v, **call_kw))
        must_fail = expected_cookie_error(attrs, wc.SAMESITE_VALIDATION)
        if must_fail:
            if ok or hs != "ValueError":
                return "config:bad-samesite-not-refused", "get_headers under %r gave %r, expected ValueError" % (attrs, hs)
            return None
        if not ok:
            return "config:get-headers-raises", "get_headers(%r) raised %s under attrs=%r supplied by %s (%s)" % (v, hs, attrs, how, alg)
        doms = case.get("domains") or [None]
        if len(hs) != len(doms):
            return "config:set-cookie-count", "%d Set-Cookie headers for domains %r" % (len(hs), case.get("domains"))
        # set_cookies on different kinds of response: same headers, appended, earlier headers kept
        resp = {"plain": lambda: Response(), "latin1": lambda: Response(charset="latin-1", content_type="text/plain"),
                "with-cookies": lambda: Response(headerlist=[("Set-Cookie", "other=1; Path=/"), ("X-A", "b")]),
                "exc": lambda: HTTPFound(location="/x")}[case.get("response", "plain")]()
        before = list(resp.headerlist)
        ok, r2 = run_catch(lambda: p.set_cookies(resp, v, **call_kw))
        if not ok or r2 is not resp or resp.headerlist[:len(before)] != before or \
                [h.split("; expires=")[0] for _, h in resp.headerlist[len(before):]] != [h.split("; expires=")[0] for _, h in hs]:
            return "config:set-cookies", "set_cookies on a %s response gave %r, get_headers %r" % (case.get("response"), r2 if not ok else resp.headerlist, hs)
        Req = {"Request": Request, "BaseRequest": BaseRequest, "SubRequest": type("SubRequest", (Request,), {"charset": "latin-1"})}[case.get("request", "Request")]
        other_case = name.swapcase() if name.swapcase() != name else name + "X"
        bad = ("A" if token[0] != "A" else "B") + token[1:]          # first symbol: six bits of the tag
        foreign = ref_token("other" + str(case["secret"]), None, ALGS[0], {"forged": 1}).decode("ascii")
        for (_, h), dom in zip(hs, doms):
            parts = h.split("; ")
            if parts[0] != "%s=%s" % (name, token):
                return "config:set-cookie-pair", "Set-Cookie %r does not start with %s=<token issued under %s>" % (h, name, alg)
            want = {"secure": bool(attrs.get("secure")), "HttpOnly": bool(attrs.get("httponly"))}
            for flag, on in want.items():
                if (flag in parts[1:]) != on:
                    return "config:attribute-lost", "Set-Cookie %r: %s should be %s (attrs %r via %s)" % (h, flag, on, attrs, how)
            if dom is not None and not any(x.startswith("Domain=") for x in parts):
                return "config:attribute-lost", "Set-Cookie %r lacks Domain for %r" % (h, dom)
            if attrs.get("max_age") is not None and not any(x.startswith("Max-Age=") for x in parts):
                return "config:attribute-lost", "Set-Cookie %r lacks Max-Age" % (h,)
            if attrs.get("samesite") is not None and not any(x.startswith("SameSite=") for x in parts):
                return "config:attribute-lost", "Set-Cookie %r lacks SameSite" % (h,)
            for header, want_v in (("%s=%s" % (name, token), True), ("%s=%s; %s=%s" % (other_case, foreign, name, token), True),
                                   ("%s=%s; %s=%s" % (name, token, other_case, foreign), True),
                                   ("%s=%s" % (other_case, token), False), ("%s=%s" % (name, bad), False),
                                   ("%s=%s" % (name, foreign), False)):
                for bind_how in ("bind", "call"):
                    env = {"REQUEST_METHOD": "GET", "SCRIPT_NAME": "", "PATH_INFO": "/", "SERVER_NAME": "localhost",
                           "SERVER_PORT": "80", "wsgi.url_scheme": case.get("scheme", "http"), "SERVER_PROTOCOL": "HTTP/1.1",
                           "HTTP_COOKIE": header}
                    req = Req(env)
                    b = p.bind(req) if bind_how == "bind" else p(req)
                    ok, r = run_catch(b.get_value)
                    good = ok and (r == v if raw else (r is not None or v is None) and same_value(r, v))
                    if want_v and not good:
                        return "config:roundtrip", ("value set as %r under attrs=%r (%s, %s, serializer=%s), echoed as Cookie: %r to a %s, "
                                                    "read back as %r" % (h, attrs, how, alg, case.get("serializer"), header,
                                                                         Req.__name__, r))
                    if not want_v and (not ok or r is not None):
                        return "config:accepted-invalid-cookie", "get_value() = %r for Cookie: %r under attrs=%r" % (r, header, attrs)
                    # the bound copy carries the profile's configuration and issues the same cookies
                    if b.request is not req or profile_snapshot(b) != profile_snapshot(p):
                        return "config:bound-copy-differs", "bind() copy %r differs from the profile %r" % (profile_snapshot(b), profile_snapshot(p))
            # the 4093 limit does not depend on the configuration
            ds = DSIZE[alg]
            for n_, refused in ((3040 - ds, False), (3070 - ds, True)):
                big = b"A" * (n_ + 2) if raw else "x" * n_
                for q in (p, p.bind(Req({"HTTP_COOKIE": ""}))):
                    okb, rb = run_catch(lambda: q.get_headers(big, **call_kw))
                    if refused and (okb or rb != "ValueError"):
                        return "config:long-value-accepted", ("a serialisation of %d bytes was not refused under attrs=%r via %s: %r"
                                                              % ((4 * (ds + n_ + 2) + 2) // 3, attrs, how, rb if not okb else "accepted"))
                    if not refused and not okb:
                        return "config:short-value-refused", "a serialisation of %d bytes raised %s under attrs=%r" % (
                            (4 * (ds + n_ + 2) + 2) // 3, rb, attrs)
            ok, hb = run_catch(lambda: p.bind(Req({"HTTP_COOKIE": ""})).get_headers(v, **call_kw))
            if not ok or [x.split("; expires=")[0] for _, x in hb] != [x.split("; expires=")[0] for _, x in hs]:
                return "config:bound-copy-differs", "bound copy issues %r, the profile %r" % (hb, hs)
        return None
    finally:
        wc.SAMESITE_VALIDATION, wc._should_raise = saved


def check_sconfig_case(case):
    """SignedSerializer under a constructor shape / secret type / digest / serializer, with argument shapes of
    dumps and loads beyond bytes and str."""
    from webob.cookies import SignedSerializer, JSONSerializer
    secret, salt, alg = unplain(case["secret"]), unplain(case["salt"]), case["alg"]
    ser = {"none": None, "json": JSONSerializer(), "raw": RawSerializer()}[case.get("serializer", "none")]
    shape = case.get("ctor", "pos")
    if shape == "pos":
        s = SignedSerializer(secret, salt, alg, ser) if ser is not None else SignedSerializer(secret, salt, alg)
    elif shape == "kw":
        s = SignedSerializer(secret=secret, salt=salt, hashalg=alg, serializer=ser)
    else:   # default digest
        alg = "sha512"
        s = SignedSerializer(secret, salt, serializer=ser)
    raw = case.get("serializer") == "raw"
    sub = case["sub"]
    if sub == "outside":
        # outside the statement's domain: what remains meaningful is that nothing is issued or accepted silently
        from webob.cookies import SignedCookieProfile
        what = case["what"]
        if what == "xof-digest":            # shake_*: not usable as an HMAC digest
            x = SignedSerializer("secret", "salt", case["alg"])
            ok, t = run_catch(x.dumps, {"a": 1})
            if ok:
                return "outside:xof-digest-issued-token", "dumps under %s issued %r" % (case["alg"], t)
            return None
        if what == "unknown-digest":
            ok, r = run_catch(SignedSerializer, "secret", "salt", "no-such-hash")
            if ok or r != "ValueError":
                return "outside:unknown-digest", "SignedSerializer(hashalg='no-such-hash') gave %r" % (r,)
            return None
        if what == "bad-name":              # not an RFC 6265 token / reserved attribute name
            p = SignedCookieProfile("secret", "salt", case["name"], hashalg="sha256")
            ok, r = run_catch(p.get_headers, {"a": 1})
            if ok:
                return "outside:bad-cookie-name-issued", "get_headers under cookie name %r issued %r" % (case["name"], r)
            tok = ref_token("secret", "salt", "sha256", {"a": 1}).decode()
            for header in ("%s=%s" % (case["name"], tok), '"%s"=%s' % (case["name"], tok)):
                ok, r = run_catch(p.bind(make_request(header)).get_value)
                if not ok:
                    return "outside:bad-cookie-name-get-value-raises", "get_value() raised %s for Cookie: %r" % (r, header)
            return None
        if what == "generator-domains":     # a one-shot iterable serves one call (documented limitation)
            p = SignedCookieProfile("secret", "salt", "session", hashalg="sha256", domains=(d for d in ["a.example", "b.example"]))
            ok, r = run_catch(p.get_headers, {"a": 1})
            if not ok or len(r) != 2 or any(browser_echo(h) != "session=" + ref_token("secret", "salt", "sha256", {"a": 1}).decode()
                                            for _, h in r):
                return "outside:generator-domains-first-call", "first get_headers with a generator of two domains gave %r" % (r,)
            return None
        raise ValueError(what)
    if sub == "value":
        # values outside strict JSON: what comes back is the JSON normalisation; not serialisable -> no token
        v = {"tuple": (1, (2, 3)), "intkeys": {1: "a", 2: {3: None}}, "nan": float("nan"), "inf": [float("inf"), -float("inf")],
             "set": {1, 2}, "bytes": b"x", "object": object(), "nonstr-key-mix": {"1": 1, 1: 2}, "bigint": 10 ** 4000,
             "deep": None}[case["value_kind"]]
        if case["value_kind"] == "deep":
            v = []
            for _ in range(case.get("depth", 900)):
                v = [v]
        ok, t = run_catch(s.dumps, v)
        try:
            norm = (json.loads(json.dumps(v)),)
        except Exception:  # noqa
            norm = None
        if norm is None:
            if ok:
                return "sconfig:token-for-unserialisable", "dumps(%s) issued %r" % (case["value_kind"], t)
            return None
        if not ok:
            return "sconfig:dumps-raises", "dumps(%s) raised %s" % (case["value_kind"], t)
        ok, r = run_catch(s.loads, t)
        if not ok or canon(r) != canon(norm[0]):
            return "sconfig:roundtrip-normalised", "loads(dumps(%s)) = %r, JSON normalisation %r" % (case["value_kind"], r, norm[0])
        return None
    v = bytes.fromhex(case["value"]["b"]) if raw else json.loads(case["value"])
    cstruct = v if raw else ref_ser(v)
    signed = ref_signed(secret, salt, alg, cstruct)
    ok, t = run_catch(s.dumps, v)
    if not ok or ref_decode(t) != signed:
        return "sconfig:token-not-tag-plus-payload", ("dumps under secret=%r salt=%r %s (ctor %s, serializer %s) = %r is not "
                                                      "HMAC(salt+secret, payload)+payload" % (secret, salt, alg, shape, case.get("serializer"), t))
    same = (lambda r: r == v) if raw else (lambda r: same_value(r, v))
    tok = bytes(t)
    forms = {"bytes": tok, "str": tok.decode("ascii"), "bytearray": bytearray(tok), "memoryview": memoryview(tok),
             "padded": tok + b"=" * (-len(tok) % 4), "none": None, "int": 5, "list": [tok], "tuple": (tok,), "float": 1.5,
             "empty-bytes": b"", "empty-str": ""}
    for fname, form in forms.items():
        ok, r = run_catch(s.loads, form)
        if not ok and r != "ValueError":
            return "sconfig:wrong-exception", "loads(<%s>) raised %s, not ValueError" % (fname, r)
        if ok and not same(r):
            return "sconfig:returned-other-value", "loads(<%s>) = %r" % (fname, r)
        if not ok and fname in ("bytes", "str", "bytearray", "padded"):
            return "sconfig:valid-token-rejected", "loads(<%s of the issued token>) raised under secret=%r salt=%r %s" % (fname, secret, salt, alg)
    # a neighbouring configuration must not accept it
    def flip(x):
        if x is None or len(x) == 0:
            return "y"
        return x[:-1] + (bytes([x[-1] ^ 1]) if isinstance(x, bytes) else chr(ord(x[-1]) ^ 1))
    for s2, l2, a2 in ((flip(secret), salt, alg), (secret, flip(salt), alg),
                       (secret, salt, "sha256" if hashlib.new(alg).digest_size != 32 else "sha1")):
        ok, r = run_catch(SignedSerializer(s2, l2, a2, ser).loads if ser is not None else SignedSerializer(s2, l2, a2).loads, tok)
        if ok or r != "ValueError":
            return "sconfig:foreign-config-accepted", "token of %r/%r/%s gave %r under %r/%r/%s" % (secret, salt, alg, r, s2, l2, a2)
    return None


def configurations(ctx):
    rng = ctx.sub_rng("configurations")
    secrets = [("secret", "salt"), (b"secret", b"salt"), (b"s\xffcret", "salt"), ("sĀcret", b"sa\xfflt"), (b"sec", "sĀ"),
               ("secret", None), (b"k" * 200, b""), ("s\xe9cret", "s\xe4lt")]
    cases = []
    hows = ["ctor-kw", "ctor-pos", "after", "call"]
    i = 0
    for attrs in ATTR_SETS:
        for how in hows:
            i += 1
            secret, salt = secrets[i % len(secrets)]
            raw = i % 5 == 0
            for validation in ((True, False) if "samesite" in attrs else (True,)):
                cases.append({"kind": "config", "secret": plain(secret), "salt": plain(salt), "alg": ALGS_EXT[i % len(ALGS_EXT)],
                              "name": NAMES[i % len(NAMES)], "attrs": {k: (v.decode() if isinstance(v, bytes) else v) for k, v in attrs.items()},
                              "how": how, "domains": [None, ["example.com"], ["a.example.com", "b.example.com"], []][i % 4],
                              "domains_type": ["list", "tuple"][i % 2], "serializer": "raw" if raw else ["none", "json"][i % 2],
                              "value": {"b": bytes(rng.randrange(256) for _ in range(rng.randrange(0, 20))).hex()} if raw
                              else json.dumps(rng.choice(PAYLOADS[1:-1]) if i % 2 else rand_json(rng)),
                              "samesite_validation": validation, "should_raise": [None, True][i % 2],
                              "request": ["Request", "BaseRequest", "SubRequest"][i % 3], "scheme": ["http", "https"][i % 2],
                              "response": ["plain", "latin1", "with-cookies", "exc"][i % 4]})
    for _ in range(ctx.scale(300, 3000)):
        i += 1
        secret, salt = rng.choice(secrets)
        attrs = dict(rng.choice(ATTR_SETS[:10]))
        attrs = {k: (v.decode() if isinstance(v, bytes) else v) for k, v in attrs.items()}
        raw = rng.random() < 0.2
        cases.append({"kind": "config", "secret": plain(secret), "salt": plain(salt), "alg": rng.choice(ALGS_EXT), "name": rng.choice(NAMES),
                      "attrs": attrs, "how": rng.choice(hows), "domains": rng.choice([None, ["example.com"], ["a.b", "c.d", "e.f"], []]),
                      "domains_type": rng.choice(["list", "tuple"]), "serializer": "raw" if raw else rng.choice(["none", "json"]),
                      "value": {"b": bytes(rng.randrange(256) for _ in range(rng.randrange(0, 30))).hex()} if raw else json.dumps(rand_json(rng)),
                      "samesite_validation": rng.choice([True, False]), "should_raise": rng.choice([None, True, False]),
                      "request": rng.choice(["Request", "BaseRequest", "SubRequest"]), "scheme": rng.choice(["http", "https"]),
                      "response": rng.choice(["plain", "latin1", "with-cookies", "exc"])})
    n = 0
    for case in cases:
        n += 1
        res = run_case(case)
        if res:
            report(ctx, case, res, "configurations")
    ctx.oracle_count("configurations", n, n)
    cases = []
    for j, (secret, salt) in enumerate(secrets):
        for k, alg in enumerate(ALGS_EXT):
            raw = (j + k) % 4 == 0
            cases.append({"kind": "sconfig", "sub": "token", "secret": plain(secret), "salt": plain(salt), "alg": alg,
                          "ctor": ["pos", "kw", "default"][(j + k) % 3], "serializer": "raw" if raw else ["none", "json"][k % 2],
                          "value": {"b": bytes(rng.randrange(256) for _ in range(rng.randrange(0, 20))).hex()} if raw
                          else json.dumps(PAYLOADS[1:-1][(j * 7 + k) % (len(PAYLOADS) - 2)])})
    for kind in ("tuple", "intkeys", "nan", "inf", "set", "bytes", "object", "nonstr-key-mix", "bigint", "deep"):
        for alg in ("sha256", "blake2b"):
            cases.append({"kind": "sconfig", "sub": "value", "secret": "secret", "salt": "salt", "alg": alg, "value_kind": kind,
                          "depth": 400})
    base_out = {"kind": "sconfig", "sub": "outside", "secret": "secret", "salt": "salt", "alg": "sha256"}
    cases += [dict(base_out, what="xof-digest", alg="shake_128"), dict(base_out, what="xof-digest", alg="shake_256"),
              dict(base_out, what="unknown-digest"), dict(base_out, what="generator-domains")]
    cases += [dict(base_out, what="bad-name", name=n_) for n_ in ("bad name", "a=b", "a;b", "path", "Max-Age", "$x", "n\xe9", "a,b", "")]
    n = 0
    for case in cases:
        n += 1
        res = run_case(case)
        if res:
            report(ctx, case, res, "argument-shapes")
    ctx.oracle_count("argument-shapes", n, n)


# --------------------------------------------------------------------------- pair level: different (secret, salt), same key
# The statement says a token issued under a different secret or salt is rejected.  The code derives the HMAC key as the plain
# concatenation of the encoded salt and secret, so distinct pairs can share a key; each mechanism has its own key
# (known findings: the derivation cannot be changed without invalidating every issued cookie, and tests pin it).
def hmac_effective_key(key, alg):
    bs = hashlib.new(alg).block_size
    if len(key) > bs:
        key = hashlib.new(alg, key).digest()
    return key.ljust(bs, b"\0")


def latin1_able(x):
    try:
        (x or "").encode("latin-1")
        return True
    except UnicodeEncodeError:
        return False


def check_pair_case(case):
    s1, l1, s2, l2, alg = case["secret1"], case["salt1"], case["secret2"], case["salt2"], case["alg"]
    v = json.loads(case["value"])
    if (s1, l1 or "") == (s2, l2 or ""):
        return None
    t = ref_token(s1, l1, alg, v)
    ok, r = run_catch(make_serializer(s2, l2, alg).loads, t)
    if not ok:
        if r != "ValueError":
            return "loads:wrong-exception", "loads raised %s for a token of another (secret, salt) pair" % r
        return None
    k1, k2 = ref_key(s1, l1), ref_key(s2, l2)
    what = "loads() under secret=%r salt=%r accepted (-> %r) the token issued under secret=%r salt=%r (%s)" % (s2, l2, r, s1, l1, alg)
    if k1 == k2:
        if (latin1_able(s1) and latin1_able(l1)) != (latin1_able(s2) and latin1_able(l2)):
            return "foreign-pair-accepted:latin1-utf8-fallback", what + ": the latin-1 encoding of one pair equals the utf-8 fallback of the other"
        return "foreign-pair-accepted:salt-secret-boundary", what + ": same concatenation salt+secret"
    if hmac_effective_key(k1, alg) == hmac_effective_key(k2, alg):
        bs = hashlib.new(alg).block_size
        if len(k1) <= bs and len(k2) <= bs:
            return "foreign-pair-accepted:hmac-zero-padding", what + ": keys differ only in trailing NUL octets, which HMAC pads anyway"
        return "foreign-pair-accepted:hmac-long-key-hashed", what + ": HMAC replaces a key longer than the block by its hash"
    return "foreign-pair-accepted:other", what


def pair_level(ctx):
    cases = []
    for alg in ALGS:
        long_secret = "k" * 150
        hashed = hashlib.new(alg, ref_key(long_secret, "salt")).digest().decode("latin-1")
        for (s1, l1, s2, l2) in [
                ("bc", "a", "c", "ab"), ("secret", "salt", "tsecret", "sal"), ("x", "", "", "x"), ("s\xe9", "n", "\xe9", "ns"),
                ("bc", "a", "bc\0", "a"), ("k", "s", "k\0\0\0", "s"),
                ("b", "\u03b1", "b", "\xce\xb1"), ("\u20ac", "s", "\xe2\x82\xac", "s"), ("k\u0100", "\xe9", "k\xc4\x80", "\xc3\xa9"),
                (long_secret, "salt", hashed, ""), (long_secret, "salt", hashed[4:], hashed[:4]),
                # controls: must be rejected
                ("bc", "a", "cb", "a"), ("bc", "a", "bc", "b"), ("bc", "a", "bc\1", "a"), ("b", "\u03b1", "b", "\u03b2"),
                (long_secret, "salt", long_secret + "x", "salt")]:
            for v in ({"admin": True}, 1):
                for a, b in (((s1, l1), (s2, l2)), ((s2, l2), (s1, l1))):
                    cases.append({"kind": "pair", "secret1": a[0], "salt1": a[1], "secret2": b[0], "salt2": b[1], "alg": alg,
                                  "value": json.dumps(v)})
    n = 0
    for case in cases:
        n += 1
        res = run_case(case)
        if res:
            report(ctx, case, res, "pair-level")
    ctx.oracle_count("pair-level", n, n)


# --------------------------------------------------------------------------- the cookie transport (Model/C16_transport.v)
TRANSPORT_IMPORTS = IMPORTS + ["Webob.Model.C16_transport"]
TRANSPORT_TYPE = "(str * option str * bytes * list (str * str) * list (str * str))"


def _raw_name(f, *a):
    """(True, value) or (False, exact exception class name)"""
    try:
        return True, f(*a)
    except Exception as e:  # noqa
        return False, type(e).__name__


def transport_setup(case):
    """profile, value handed to set_cookies, serialised value (what make_cookie receives)"""
    name, dom = case["name"], case.get("dom")
    domains = None if dom is None else [dom]
    if case["mode"] == "signed":
        v = json.loads(case["value"])
        p = make_profile(case["secret"], case["salt"], case["alg"], name, domains)
        tok = make_serializer(case["secret"], case["salt"], case["alg"]).dumps(v)
    else:
        v = tok = bytes.fromhex(case["raw"])
        p = raw_profile(name, domains)
    return p, v, tok


def transport_header(case, pair):
    """The Cookie header a client sends: the echoed pair among its other cookies (values as webob emits them)."""
    from webob.cookies import _value_quote

    def render(k, hexv):
        return k.encode("latin-1") + b"=" + _value_quote(bytes.fromhex(hexv))
    return b"; ".join([render(k, b) for k, b in case["before"]] + [pair] + [render(k, b) for k, b in case["after"]])


def transport_observe(case):
    """Real webob: set_cookies on a Response -> Set-Cookie line -> echoed Cookie header -> request.cookies.get(name).
    Returns the canonical observation compared with corr_transport."""
    from webob import Response
    p, v, tok = transport_setup(case)
    name, dom = case["name"], case.get("dom")
    resp = Response()
    ok, r = _raw_name(p.set_cookies, resp, v)
    if not ok:
        return Err(r)
    hs = [h for k, h in resp.headerlist if k == "Set-Cookie"]
    if len(hs) != 1:
        return Err("SetCookieCount%d" % len(hs))
    line = hs[0]
    header = transport_header(case, browser_echo(line).encode("latin-1"))
    ok, got = _raw_name(lambda: make_request(header.decode("latin-1")).cookies.get(name))
    plain_line = "%s=%s%s; Path=/" % (name, tok.decode("latin-1"), "" if dom is None else "; Domain=" + dom)
    return [line, header, got if ok else Err(got), line == plain_line]


def check_transport_case(case):
    """The statement at the cookie level, on the real public API only: a SignedCookieProfile value set on a real Response,
    echoed in a real Request among other cookies, comes back from get_value(); an altered echoed value gives None."""
    if case["mode"] != "signed":
        return None
    from webob import Response
    from webob.cookies import _valid_cookie_name
    name = case["name"]
    try:
        valid = bool(name) and _valid_cookie_name(name.encode("ascii"))
    except (UnicodeEncodeError, IndexError):
        valid = False
    p, v, tok = transport_setup(case)
    if v is None:
        return None
    resp = Response()
    ok, r = run_catch(p.set_cookies, resp, v)
    if not valid:
        return None if not ok else ("transport:invalid-name-accepted", "set_cookies accepted the cookie name %r" % name)
    if not ok:
        return "transport:set-cookies-raises", "set_cookies(%s) under name %r raised %s" % (case["value"][:80], name, r)
    line = [h for k, h in resp.headerlist if k == "Set-Cookie"][0]
    pair = browser_echo(line)
    if pair != "%s=%s" % (name, ref_token(case["secret"], case["salt"], case["alg"], v).decode("ascii")):
        return "transport:token-quoted-or-changed", "Set-Cookie %r does not carry name=token unquoted and unchanged" % (line[:200],)
    shadowed = any(k == name for k, _ in case["after"])
    header = transport_header(case, pair.encode("latin-1")).decode("latin-1")
    undecodable = False
    for _, hexv in case["before"] + case["after"]:
        try:
            bytes.fromhex(hexv).decode("utf-8")
        except UnicodeDecodeError:      # C07's known finding: one cookie that is not UTF-8 makes request.cookies raise
            undecodable = True
    ok, r = run_catch(p.bind(make_request(header)).get_value)
    if not ok:
        return "transport:get-value-raises", "get_value raised %s for Cookie: %r" % (r, header[:300])
    if undecodable:
        # a neighbouring cookie that is not UTF-8 makes the whole jar undecodable: get_value must give None, not raise
        return None if r is None else ("transport:value-from-undecodable-jar", "got %r from Cookie: %r" % (r, header[:300]))
    if not shadowed and not same_value(r, v):
        return "transport:roundtrip", ("value %s set as %r, echoed as Cookie: %r, read back as %r"
                                       % (case["value"][:80], line[:200], header[:300], r))
    if shadowed and r is not None and not same_value(r, v):
        return "transport:other-value", "a later cookie of the same name made get_value return %r" % (r,)
    # the echoed value altered (first symbol replaced by another alphabet symbol), still among the same cookies
    t = pair.split("=", 1)[1]
    alt = ("B" if t[0] != "B" else "C") + t[1:]
    header2 = transport_header(case, ("%s=%s" % (name, alt)).encode("latin-1")).decode("latin-1")
    ok, r2 = run_catch(p.bind(make_request(header2)).get_value)
    if not ok:
        return "transport:get-value-raises", "get_value raised %s for Cookie: %r" % (r2, header2[:300])
    if r2 is not None and not shadowed:
        return "transport:accepted-altered-cookie", "altered cookie %r read back as %r" % (header2[:300], r2)
    return None


TRANSPORT_NAMES = ["session", "auth_tkt", "a", "x-y.z", "SID", "a.b-c_d", "~tok!", "n" * 40, "Session", "x|y", "1", "*"]
TRANSPORT_BAD_NAMES = ["bad name", "$x", "path", "Max-Age", "", "na;me", "n=m", "n\xe9", "\u20acx", "a,b", "secure", "a\"b"]
TRANSPORT_DOMAINS = [None, None, None, "example.com", ".a.example.com", "ex ample.com", "", "d;x", "ex\xe4mple.com", "a,b.c"]
TRANSPORT_OTHERS = [("a", b"1"), ("lang", "\u00e9".encode("utf-8")), ("z", b"y x;"), ("q", b'"quoted"'), ("u", "\u20ac\u00fc".encode("utf-8")),
                    ("e", b""), ("bs", b"back\\slash"), ("b64", b"QUJD-_8="), ("sp", b" lead"), ("c,", b"v"), ("ctl", b"a\x00\nb"),
                    ("sessio", b"near"), ("SESSION", b"case"), ("eq", b"k=v=w"), ("long", b"0123456789" * 12)]


def gen_transport_cases(ctx, rng, n):
    cases = []

    def others(name, k):
        out = []
        for _ in range(k):
            r = rng.random()
            if r < 0.08:
                out.append([name, rng.choice([b"other", b"", b"QUJD", b'x y']).hex()])       # same name: the later one wins
            elif r < 0.12:
                out.append([rng.choice(["nu", "a"]), rng.choice([b"\xff", b"\xc3", b"ok\xe9"]).hex()])   # not UTF-8: the jar raises
            elif r < 0.16:
                out.append([rng.choice(["path", "$v", "Domain", "expires"]), b"/x".hex()])   # names parse_cookie drops
            else:
                k_, b_ = rng.choice(TRANSPORT_OTHERS)
                out.append([k_, b_.hex()])
        return out

    sizes = list(range(0, 201, 5)) + [1, 2, 3, 199]
    for i in range(n + n // 5):
        secret, salt = SECRETS[i % len(SECRETS)] if i % 3 else rand_secret(rng)
        size = sizes[i % len(sizes)] if i % 2 == 0 else rng.randrange(0, 201)
        kind = i % 4
        if kind == 0:
            value = "x" * size
        elif kind == 1:
            value = "".join(rng.choice("ab\u00e9\u20ac\"\\ ;,=") for _ in range(size // 2))
        elif kind == 2:
            value = [rng.randrange(-5, 10 ** 6) for _ in range(size // 8)]
        else:
            value = rand_json(rng)
        name = rng.choice(TRANSPORT_BAD_NAMES) if i % 11 == 10 else TRANSPORT_NAMES[i % len(TRANSPORT_NAMES)]
        if value is None or not run_catch(lambda: make_serializer(secret, salt, ALGS[i % 4]).dumps(value))[0]:
            continue            # a secret / value the constructor or json refuses: nothing is issued
        cases.append({"kind": "transport", "mode": "signed", "secret": secret, "salt": salt, "alg": ALGS[i % 4], "name": name,
                      "dom": rng.choice(TRANSPORT_DOMAINS), "value": canon(value),
                      "before": others(name, rng.randrange(0, 4)), "after": others(name, rng.randrange(0, 4))})
    # any serialised octets at all through the same path (pass-through serializer): quoting, escapes, non-UTF-8, empty
    boundary = [b"", b"=", b"==", b"A", b"-_", b"a b", b"a;b", b'"', b'""', b'"a"', b"\\", b"\\073", b"a,b", b"\xff", b"\xc3\xa9",
                b"\x00", b"a\nb", b"\x7f", b"\xe2\x82", b"\"a", b"a\"", b"Mon, 01-Jan-2024 00:00:00 GMT", b"A" * 200, b"\\" * 7]
    for i in range(n // 2):
        if i < len(boundary):
            raw = boundary[i]
        elif i % 3 == 0:
            raw = bytes(rng.choice(ALPHABET) for _ in range(rng.randrange(0, 120)))
        elif i % 3 == 1:
            raw = mutate_bytes(rng, bytes(rng.choice(ALPHABET) for _ in range(rng.randrange(1, 60))))
        else:
            raw = bytes(rng.randrange(256) for _ in range(rng.randrange(0, 24)))
        name = rng.choice(TRANSPORT_BAD_NAMES) if i % 9 == 8 else TRANSPORT_NAMES[i % len(TRANSPORT_NAMES)]
        cases.append({"kind": "transport", "mode": "raw", "name": name, "dom": rng.choice(TRANSPORT_DOMAINS), "raw": raw.hex(),
                      "before": others(name, rng.randrange(0, 3)), "after": others(name, rng.randrange(0, 3))})
    return cases


def corr_transport(ctx, rng, n):
    """set_cookies on a real Response -> Set-Cookie line -> client echo among other cookies -> request.cookies.get, against
    corr_transport (C07's make_cookie / request_cookies models composed in Model/C16_transport.v); then the statement at
    the cookie level on the real API for every signed case."""
    cases = []
    fails = 0
    ncases = gen_transport_cases(ctx, rng, n)
    for case in ncases:
        _, _, tok = transport_setup(case)
        out = transport_observe(case)
        pairs = lambda ps: clist(cpair(cstr(k), cstr(bytes.fromhex(b))) for k, b in ps)  # noqa
        lit = "(%s, %s, %s, %s, %s)" % (cstr(case["name"]), copt(None if case.get("dom") is None else cstr(case["dom"])), cstr(tok),
                                        pairs(case["before"]), pairs(case["after"]))
        cases.append((lit, out, case))
    bad = ctx.corr("cookie_transport", TRANSPORT_IMPORTS, "corr_transport", cases, in_type=TRANSPORT_TYPE, shard=100,
                   shard_bytes=200000)
    corr_followup(ctx, "cookie_transport", cases, bad, lambda c: [c])
    nontrivial = 0
    for case in ncases:
        if case["mode"] != "signed":
            continue
        nontrivial += 1
        res = run_case(case)
        if res:
            fails += 1
            if fails <= 5:
                report(ctx, case, res, "transport")
    ctx.oracle_count("transport", nontrivial, nontrivial)


CHECKS = {"loads": check_loads_case, "roundtrip": check_roundtrip_case, "get_value": check_get_value_case,
          "profile": check_profile_roundtrip_case, "limit": check_limit_case, "plain": check_plain_case,
          "echo": check_echo_case, "rawlimit": check_rawlimit_case, "history": check_history_case,
          "order": check_order_case, "config": check_config_case, "sconfig": check_sconfig_case,
          "pair": check_pair_case, "transport": check_transport_case}


def fresh_module():
    """Re-execute webob.cookies so that module- and class-level state starts empty (what a replay process sees)."""
    import importlib
    import webob.cookies
    importlib.reload(webob.cookies)


def report(ctx, case, res, source):
    """Record a failing single-call case.  If the case passes once webob.cookies is reloaded, the failure was caused by
    calls made earlier in this process: its replay alone cannot reproduce it, so it is reported as such (the histories /
    order sections produce the self-contained replay)."""
    if case.get("kind") not in ("history", "order"):
        fresh_module()
        if not run_case(case):
            ctx.fail(res[0] + ":only-after-earlier-calls", res[1] + "  [passes on a freshly imported webob.cookies: "
                     "module- or class-level state]", case, False, source)
            return
    ctx.fail(res[0], res[1], case, True, source)


def run_case(case):
    try:
        return CHECKS[case["kind"]](case)
    except Exception as e:  # noqa  -- the implementation raised where the statement allows no exception at all
        return case["kind"] + ":implementation-raises", "%s on %s" % (repr(e)[:300], json.dumps(case)[:300])


# --------------------------------------------------------------------------- generators
def rand_json(rng, depth=0):
    k = rng.randrange(9 if depth < 3 else 6)
    if k == 0:
        return rng.choice([None, True, False])
    if k == 1:
        return rng.choice([0, 1, -7, 2 ** 31, -2 ** 63, 10 ** 25])
    if k == 2:
        return rng.choice([0.5, -3.25, 1e-7, 6.02e23])
    if k in (3, 4, 5):
        alph = "abc XYZ019_-\"\\/\n\t\xe9\xffĀ€\U0001f600{}[]:,"
        return "".join(rng.choice(alph) for _ in range(rng.randrange(0, 12)))
    if k in (6, 7):
        return [rand_json(rng, depth + 1) for _ in range(rng.randrange(0, 4))]
    return {"".join(rng.choice("abk\xe9") for _ in range(rng.randrange(0, 3))): rand_json(rng, depth + 1)
            for _ in range(rng.randrange(0, 4))}


def rand_secret(rng):
    alph = rng.choice(["abcXYZ019", "abc\xe9\xff", "abĀ€", "a\U0001f600\xe9", "\x00\x01 ~"])
    mk = lambda n: "".join(rng.choice(alph) for _ in range(rng.randrange(n)))  # noqa
    salt = rng.choice([mk(6), mk(6), "", None])
    return mk(40) or "k", salt


def rand_junk(rng):
    k = rng.randrange(4)
    n = rng.randrange(0, 40)
    if k == 0:
        return bytes(rng.choice(ALPHABET) for _ in range(n))
    if k == 1:
        return bytes(rng.choice(ALPHABET + b"=+/ \n=") for _ in range(n))
    if k == 2:
        return bytes(rng.randrange(256) for _ in range(n))
    body = bytes(rng.choice(ALPHABET) for _ in range(n))
    return body + b"=" * rng.randrange(0, 5) + bytes(rng.choice(ALPHABET + b"=") for _ in range(rng.randrange(0, 6)))


def mutate_bytes(rng, t):
    t = bytearray(t)
    for _ in range(rng.randrange(1, 4)):
        k = rng.randrange(5)
        i = rng.randrange(len(t) + 1)
        c = rng.choice(ALPHABET) if rng.random() < 0.6 else rng.choice(OUTSIDE)
        if k == 0 and i < len(t):
            t[i] = c
        elif k == 1:
            t.insert(i, c)
        elif k == 2 and i < len(t):
            del t[i]
        elif k == 3:
            t = t[:i]
        else:
            t += b"=" * rng.randrange(1, 4)
    return bytes(t)


def corr_followup(ctx, name, cases, bad, to_oracle_cases):
    """Disagreeing correspondence cases -> property oracle; a failure there is a violation with a failing input,
    otherwise the tie is broken."""
    for i in bad[:8]:
        case = cases[i][2]
        hit = False
        for oc in to_oracle_cases(case):
            res = run_case(oc)
            if res:
                report(ctx, oc, res, "corr")
                hit = True
                break
        if not hit:
            ctx.broken.append("correspondence %s: model and implementation disagree on %s (implementation: %r)"
                              % (name, json.dumps(case)[:600], cases[i][1]))


# --------------------------------------------------------------------------- the check
def correspondence(ctx):
    for section in (corr_base64, corr_salted, corr_signed, corr_b64ser, corr_get_value, corr_get_headers, corr_transport):
        try:
            section(ctx, ctx.sub_rng("corr-" + section.__name__), ctx.scale(300, 4000))
        except Exception:  # noqa  -- the implementation raised outside any modelled outcome; the oracle sweep looks for the input
            import traceback
            ctx.broken.append("correspondence %s could not be run: %s" % (section.__name__, traceback.format_exc()[-700:]))


def corr_base64(ctx, rng, n):
    # ---- base64 decode / encode against CPython
    cases = []
    seen = set()
    for i in range(n * 2):
        if i % 3 == 0:
            s = rand_junk(rng)
        else:
            raw = bytes(rng.randrange(256) for _ in range(rng.randrange(0, 30)))
            s = base64.urlsafe_b64encode(raw)
            if i % 3 == 1:
                s = mutate_bytes(rng, s.rstrip(b"=") if rng.random() < 0.5 else s)
        if s in seen:
            continue
        seen.add(s)
        try:
            out = base64.urlsafe_b64decode(s)
        except binascii.Error:
            out = Err("ValueError")
        cases.append((cstr(s), out, {"kind": "b64dec", "input": s.hex()}))
    bad = ctx.corr("b64dec", IMPORTS, "corr_b64dec", cases, in_type="bytes")
    for i in bad[:5]:
        ctx.broken.append("b64dec model differs from base64.urlsafe_b64decode on %s" % cases[i][2]["input"])
    cases = []
    for i in range(n):
        raw = bytes(rng.randrange(256) for _ in range(rng.randrange(0, 40)))
        cases.append((cstr(raw), base64.urlsafe_b64encode(raw), {"kind": "b64enc", "input": raw.hex()}))
    bad = ctx.corr("b64enc", IMPORTS, "corr_b64enc", cases, in_type="bytes")
    for i in bad[:5]:
        ctx.broken.append("b64enc model differs from base64.urlsafe_b64encode on %s" % cases[i][2]["input"])


def corr_salted(ctx, rng, n):
    # ---- salted secret
    cases = []
    pairs = list(SECRETS) + [("a\ud800", "s"), ("a", "\udfff"), ("\xff", "Ā"), ("Ā", "\xff"), ("\U0010ffff", "߿ࠀ")]
    pairs += [rand_secret(rng) for _ in range(n // 2)]
    for secret, salt in pairs:
        ok, s = run_catch(make_serializer, secret, salt, "sha256")
        out = s.salted_secret if ok else Err(s if s != "ValueError" else "UnicodeEncodeError")
        cases.append((c_ss(secret, salt), out, {"kind": "roundtrip", "secret": secret, "salt": salt, "alg": "sha256",
                                                "value": "{\"a\": 1}"}))
    bad = ctx.corr("salted_secret", IMPORTS, "corr_salted", cases, in_type="(str * str)")
    corr_followup(ctx, "salted_secret", cases, bad,
                  lambda c: [c] if run_catch(lambda: ((c["salt"] or "") + c["secret"]).encode("utf-8"))[0] else [])


def corr_signed(ctx, rng, n):
    # ---- SignedSerializer.dumps / loads on recorded hmac / json answers
    dcases, lcases = [], []
    for i in range(n):
        secret, salt = rng.choice(SECRETS) if i % 2 else rand_secret(rng)
        alg = ALGS[i % 4] if i % 3 else ALGS_EXT[(i // 3) % len(ALGS_EXT)]      # also digests beyond the four named
        v = rng.choice(PAYLOADS) if i % 3 == 0 else rand_json(rng)
        base = {"secret": secret, "salt": salt, "alg": alg, "value": json.dumps(v)}
        with recording() as rec:
            s = make_serializer(secret, salt, alg)
            ok, t = run_catch(s.dumps, v)
        if not ok:
            continue
        dcases.append(("(%s, %s, %s, %s)" % (c_ss(secret, salt), cstr(vid(canon(v))), c_mac_table(rec.mac), c_ser_table(rec.ser)),
                       [t, True], dict(base, kind="roundtrip")))
        # presented tokens: the issued one, alterations of it, junk, a token of another configuration
        toks = [t, mutate_bytes(rng, t), mutate_bytes(rng, t)]
        if i % 5 == 0:
            toks.append(rand_junk(rng))
        if i % 5 == 1:
            toks.append(t.decode("ascii") + rng.choice(["Ā", "\xe9", "=="]))
        if i % 5 == 2:
            s2, l2 = rng.choice(SECRETS)
            toks.append(ref_token(s2, l2, rng.choice(ALGS), v))
        if i % 5 == 3:
            signed = ref_decode(t)
            toks.append(base64.urlsafe_b64encode(signed[:DSIZE[alg] // 2] + signed[DSIZE[alg]:]).rstrip(b"="))
            toks.append(base64.b64encode(signed))
        for tok in toks:
            with recording() as rec:
                s = make_serializer(secret, salt, alg)
                ok, r = run_catch(s.loads, tok)
            oc = dict(base, kind="loads")
            if isinstance(tok, str):
                oc["token_text"] = tok
            else:
                oc["token"] = tok.hex()
            lcases.append(("(%s, %s, %s, %s, %s)" % (c_ss(secret, salt), cnat(DSIZE[alg]), cstr(tok), c_mac_table(rec.mac),
                                                     c_deser_table(rec.deser)),
                           [out_val(ok, r), True, True, len(rec.deser) > 0], oc))
    bad = ctx.corr("signed_dumps", IMPORTS, "corr_dumps", dcases, in_type="((str * str) * str * mac_table * ser_table)")
    corr_followup(ctx, "signed_dumps", dcases, bad, lambda c: [c])
    bad = ctx.corr("signed_loads", IMPORTS, "corr_loads", lcases,
                   in_type="((str * str) * nat * str * mac_table * deser_table)")
    corr_followup(ctx, "signed_loads", lcases, bad, lambda c: [c, dict(c, kind="roundtrip")])


def corr_b64ser(ctx, rng, n):
    # ---- Base64Serializer
    from webob.cookies import Base64Serializer
    dcases, lcases = [], []
    for i in range(n // 2):
        v = rng.choice(PAYLOADS) if i % 3 == 0 else rand_json(rng)
        with recording() as rec:
            t = Base64Serializer().dumps(v)
        dcases.append(("(%s, %s)" % (cstr(vid(canon(v))), c_ser_table(rec.ser)), t,
                       {"kind": "plain", "sub": "roundtrip", "value": json.dumps(v)}))
        for tok in (t, mutate_bytes(rng, t), t.rstrip(b"="), rand_junk(rng)):
            with recording() as rec:
                ok, r = run_catch(Base64Serializer().loads, tok)
            lcases.append(("(%s, %s)" % (cstr(tok), c_deser_table(rec.deser)), out_val(ok, r),
                           {"kind": "plain", "sub": "loads", "token": tok.hex()}))
    bad = ctx.corr("b64ser_dumps", IMPORTS, "corr_b64ser_dumps", dcases, in_type="(str * ser_table)")
    corr_followup(ctx, "b64ser_dumps", dcases, bad, lambda c: [c])
    bad = ctx.corr("b64ser_loads", IMPORTS, "corr_b64ser_loads", lcases, in_type="(str * deser_table)")
    corr_followup(ctx, "b64ser_loads", lcases, bad, lambda c: [c])


def corr_get_value(ctx, rng, n):
    # ---- get_value: SignedCookieProfile (wiring, bind) and plain CookieProfile, on a real Request
    from webob.cookies import Base64Serializer, CookieProfile
    gcases, pcases = [], []
    for i in range(n):
        secret, salt = rng.choice(SECRETS) if i % 2 else rand_secret(rng)
        alg = ALGS[i % 4] if i % 3 else ALGS_EXT[(i // 3) % len(ALGS_EXT)]      # also digests beyond the four named
        name = rng.choice(NAMES)
        v = rng.choice(PAYLOADS) if i % 3 == 0 else rand_json(rng)
        ok, t = run_catch(lambda: ref_token(secret, salt, alg, v))
        if not ok:
            continue
        k = i % 8
        tok = t if k in (0, 1) else mutate_bytes(rng, t)
        spell = cookie_spellings(tok, name, rng)
        header = rng.choice(spell)
        if k == 5:
            header = None
        if k == 6:
            header = "other=%s" % t.decode("ascii")
        if k == 7:
            header = '%s="%s\xff"' % (name, t.decode("ascii")) if i % 16 == 7 else "%s=%s\\377" % (name, t.decode("ascii"))
        how = ["bind", "call", "unbound"][i % 3] if k != 7 else "bind"
        jar = jar_lookup(header, name)
        with recording() as rec:
            p = make_profile(secret, salt, alg, name)
            b = p if how == "unbound" else (p.bind(make_request(header)) if how == "bind" else p(make_request(header)))
            ok, r = run_catch(b.get_value)
        out = (None if r is None else canon(r)) if ok else Err(r)
        lit = "(%s, %s, %s, %s, %s)" % (c_profile(secret, salt, name, []), "None" if how == "unbound" else "(Some %s)" % c_jar(jar),
                                        cnat(DSIZE[alg]), c_mac_table(rec.mac), c_deser_table(rec.deser))
        gcases.append((lit, [out, True, True], {"kind": "get_value", "secret": secret, "salt": salt, "alg": alg, "name": name,
                                  "header": header, "value": json.dumps(v), "bind": how}))
        if i % 3 == 0:
            t2 = Base64Serializer().dumps(v)
            tok2 = t2 if k in (0, 1) else mutate_bytes(rng, t2)
            header2 = None if k == 5 else rng.choice(cookie_spellings(tok2, name, rng))
            jar2 = jar_lookup(header2, name)
            with recording() as rec:
                p = CookieProfile(name)
                b = p if how == "unbound" else p.bind(make_request(header2))
                ok, r = run_catch(b.get_value)
            out = (None if r is None else canon(r)) if ok else Err(r)
            pcases.append(("(%s, %s)" % ("None" if how == "unbound" else "(Some %s)" % c_jar(jar2), c_deser_table(rec.deser)), out,
                           {"kind": "plain-get_value", "header": header2, "name": name, "bind": how}))
    bad = ctx.corr("get_value", IMPORTS, "corr_get_value", gcases,
                   in_type="(sprofile * option jar * nat * mac_table * deser_table)")
    corr_followup(ctx, "get_value", gcases, bad, lambda c: [c] if c["bind"] != "unbound" else [])
    bad = ctx.corr("get_value_plain", IMPORTS, "corr_get_value_plain", pcases, in_type="(option jar * deser_table)")
    for i in bad[:5]:
        c = pcases[i][2]
        if jar_lookup(c["header"], c["name"]) == "raises" and isinstance(pcases[i][1], Err):
            ctx.fail("get_value:raises-on-undecodable-cookie",
                     "CookieProfile.get_value() raised for Cookie: %r; the property says None" % (c["header"],),
                     {"kind": "get_value", "secret": "s", "salt": "", "alg": "sha1", "name": c["name"], "header": c["header"],
                      "value": "null"}, True, "corr")
        else:
            ctx.broken.append("correspondence get_value_plain: model and implementation disagree on %s" % json.dumps(c))


def corr_get_headers(ctx, rng, n):
    # ---- get_headers: limit and Set-Cookie shape
    hcases = []
    specs = []
    for alg in ALGS:
        for target in ((4092 if alg == "md5" else 4094,) if alg != "sha256" and not ctx.thorough
                       else (4091, 4092, 4093, 4094, 4095, 4097)):
            specs.append((alg, target, []))
    for i in range(ctx.scale(60, 300)):
        specs.append((ALGS[i % 4], rng.choice([60, 100, 200, rng.randrange(30, 600), rng.randrange(30, 600),
                                               rng.choice([4093, 4094, rng.randrange(600, 4200)])]),
                      rng.choice([[], [], ["example.com"], ["a.example.com", "example.com"]])))
    for alg, target, domains in specs:
        secret, salt = rng.choice(SECRETS[:6])
        name = rng.choice(NAMES)
        body = payload_for_token_len(secret, salt, alg, target)
        if body is None:
            continue
        with recording() as rec:
            p = make_profile(secret, salt, alg, name, domains or None)
            ok, r = run_catch(p.get_headers, body)
        out = [h for _, h in r] if ok else Err(r)
        lit = "(%s, %s, %s, %s)" % (c_profile(secret, salt, name, domains), cstr(vid(canon(body))), c_mac_table(rec.mac),
                                    c_ser_table(rec.ser))
        hcases.append((lit, out, {"kind": "limit", "secret": secret, "salt": salt, "alg": alg, "name": name, "n": len(body),
                                  "domains": domains}))
    # any length, through a serializer that is the identity on bytes (4093 itself is not a length a base64 token can have)
    rcases = []
    for i, n_ in enumerate(list(range(*ctx.scale((4091, 4096), (4080, 4110)))) + [rng.randrange(1, 300) for _ in range(20)]):
        name = NAMES[i % len(NAMES)]
        domains = [[], ["example.com"], ["a.example.com", "example.com"]][i % 3]
        body = bytes(rng.choice(ALPHABET) for _ in range(n_))
        ok, r = run_catch(raw_profile(name, domains).get_headers, body)
        rcases.append(("(%s, %s, %s)" % (cstr(name), clist(cstr(d) for d in domains), cstr(body)),
                       [h for _, h in r] if ok else Err(r), {"kind": "rawlimit", "name": name, "domains": domains, "n": n_}))
    bad = ctx.corr("get_headers_raw", IMPORTS, "corr_get_headers_raw", rcases, in_type="(str * list str * bytes)",
                   shard=8, shard_bytes=400000)
    corr_followup(ctx, "get_headers_raw", rcases, bad, lambda c: [c])
    bad = ctx.corr("get_headers", IMPORTS, "corr_get_headers", hcases, in_type="(sprofile * str * mac_table * ser_table)",
                   shard=12, shard_bytes=400000)
    corr_followup(ctx, "get_headers", hcases, bad,
                  lambda c: [c, {"kind": "profile", "secret": c["secret"], "salt": c["salt"], "alg": c["alg"], "name": c["name"],
                                 "domains": c["domains"], "value": json.dumps("x" * min(c["n"], 50))}])


def oracle(ctx):
    def do(name, cases, nontrivial=None):
        n = 0
        for case in cases:
            n += 1
            res = run_case(case)
            if res:
                report(ctx, case, res, name)
        ctx.oracle_count(name, n, n if nontrivial is None else nontrivial)

    rng = ctx.sub_rng("oracle")
    # incl. secrets / salts longer than every hash block (64 / 128 octets) that differ only in their last character
    configs = [(s, l, a) for (s, l) in SECRETS + LONG_SECRETS for a in ALGS]

    # 1. round trip: every payload x every secret/salt x every digest (+ random)
    cases = [{"kind": "roundtrip", "secret": s, "salt": l, "alg": a, "value": json.dumps(v)}
             for (s, l, a) in configs for v in PAYLOADS]
    for _ in range(ctx.scale(1500, 30000)):
        s, l = rand_secret(rng)
        cases.append({"kind": "roundtrip", "secret": s, "salt": l, "alg": rng.choice(ALGS), "value": json.dumps(rand_json(rng))})
    do("roundtrip", cases)

    # 2. alterations of issued tokens
    def alterations(nconf, per_pos_alph, per_pos_out, payloads):
        for ci in range(nconf):
            s, l = SECRETS[ci % len(SECRETS)]
            a = ALGS[ci % 4]
            for v in payloads:
                t = ref_token(s, l, a, v)
                v2 = {"other": v}
                signed, signed2 = ref_signed(s, l, a, ref_ser(v)), ref_signed(s, l, a, ref_ser(v2))
                base = {"kind": "loads", "secret": s, "salt": l, "alg": a, "value": json.dumps(v)}
                for label, t2 in tamper_stream(t, rng, per_pos_alph, per_pos_out, ref_token(s, l, a, v2), DSIZE[a], signed, signed2,
                                                ref_key(s, l), a):
                    if t2 != t:
                        yield dict(base, token=t2.hex(), alteration=label)
    small = [{"a": 1}, "x", None, [1, 2, 3], 0, "h\xe9"]
    if ctx.thorough:
        do("alterations-exhaustive", alterations(8, 64, len(OUTSIDE), small))          # every position x every symbol
        do("alterations-all-octets", all_octets(ctx, 4))
    else:
        do("alterations-exhaustive", alterations(4, 64, len(OUTSIDE), small[:2]))       # 4 digests, every position x every symbol
    do("alterations-sampled", alterations(ctx.scale(len(SECRETS), len(SECRETS) * 2), 3, 2, [rng.choice(PAYLOADS[:-1]) for _ in range(ctx.scale(2, 6))]))

    # 3. tokens issued under another secret / salt / digest, or with a wrongly derived key
    cases = []
    for (s, l, a) in configs:
        for v in ({"a": 1}, "x"):
            c = ref_ser(v)
            base = {"kind": "loads", "secret": s, "salt": l, "alg": a, "value": json.dumps(v)}
            for (s2, l2, a2) in [(s, l, x) for x in ALGS if x != a] + [(s, (l or "") + "x", a), (s + "x", l, a), (l or "", s, a),
                                                                      (s, "", a), ("", l, a), (s.upper(), l, a),
                                                                      ((l or "") + s, "", a), ("", (l or "") + s, a),
                                                                      (s[:-1] + chr(ord(s[-1]) ^ 1) if s else "y", l, a),
                                                                      (s, l[:-1] + chr(ord(l[-1]) ^ 1) if l else "y", a)]:
                cases.append(dict(base, token=ref_token(s2, l2, a2, v).hex(), alteration="issued-under %r/%r/%s" % (s2, l2, a2)))
            enc = lambda b: base64.urlsafe_b64encode(b).rstrip(b"=").hex()  # noqa
            k = ref_key(s, l)
            for label, key in (("secret-only", ref_key(s, "")), ("salt-only", ref_key("", l)), ("reversed", ref_key(l or "", s)),
                               ("utf8-key", (l or "").encode("utf-8") + s.encode("utf-8")), ("empty-key", b"")):
                if key != k and key.rstrip(b"\0") != k.rstrip(b"\0"):
                    cases.append(dict(base, token=enc(real_hmac.new(key, c, a).digest() + c), alteration="key:" + label))
            cases.append(dict(base, token=enc(hashlib.new(a, k + c).digest() + c), alteration="plain-hash-not-hmac"))
            cases.append(dict(base, token=enc(real_hmac.new(k, c, a).hexdigest().encode() + c), alteration="hex-tag"))
            for a2 in ALGS:
                if a2 != a:
                    tag = real_hmac.new(k, c, a2).digest()
                    cases.append(dict(base, token=enc((tag * 4)[:DSIZE[a]] + c), alteration="tag-of-%s-resized" % a2))
    do("foreign-config", cases)

    # 4. get_value on a real request
    cases = []
    for ci in range(ctx.scale(12, 40)):
        s, l = SECRETS[ci % len(SECRETS)]
        a = ALGS[ci % 4]
        name = NAMES[ci % len(NAMES)]
        v = PAYLOADS[(ci * 7 + 3) % (len(PAYLOADS) - 1)]
        t = ref_token(s, l, a, v)
        base = {"kind": "get_value", "secret": s, "salt": l, "alg": a, "name": name, "value": json.dumps(v)}
        toks = [t, t + b"==", t[:-1], t[1:], b"", b"=", t + b"\xff", t[:3] + b"\xff" + t[3:], t[:3] + b"\xc3\xa9" + t[3:],
                t[:3] + b"\xc4\x80" + t[3:], t + b"\xe2\x82", b"\xff", t[:7] + b";" + t[7:], t[:7] + b'"' + t[7:],
                t[:7] + b"\\" + t[7:], t[:7] + b" " + t[7:], t[:7] + b"," + t[7:], base64.b64encode(ref_decode(t))]
        toks += [mutate_bytes(rng, t) for _ in range(ctx.scale(10, 60))]
        for tok in toks:
            for header in cookie_spellings(tok, name, rng):
                for how in ("bind", "call"):
                    cases.append(dict(base, header=header, bind=how))
        for header in (None, "", "other=1", "%s" % name, "%s=" % name, '%s=""' % name, "%s=%s; %s=AAAA" % (name, t.decode(), name),
                       "%s=AAAA; %s=%s" % (name, name, t.decode())):
            cases.append(dict(base, header=header, bind="bind"))
    do("get_value", cases)

    # 5. the Set-Cookie -> Cookie leg and the whole profile round trip
    cases = [{"kind": "echo", "name": n_, "tok": chr(c) * k} for n_ in NAMES[:2] for c in ALPHABET for k in (1, 3)]
    for _ in range(ctx.scale(300, 5000)):
        cases.append({"kind": "echo", "name": rng.choice(NAMES),
                      "tok": "".join(chr(rng.choice(ALPHABET)) for _ in range(rng.randrange(1, 90)))})
    do("echo", cases)
    cases = []
    for ci, (s, l, a) in enumerate(configs):
        for v in ([PAYLOADS[(ci + j * 5) % len(PAYLOADS)] for j in range(3)] if not ctx.thorough else PAYLOADS):
            cases.append({"kind": "profile", "secret": s, "salt": l, "alg": a, "name": NAMES[ci % len(NAMES)],
                          "domains": [[], ["example.com"], ["a.example.com", "b.example.com"]][ci % 3], "value": json.dumps(v)})
    for _ in range(ctx.scale(300, 6000)):
        s, l = rand_secret(rng)
        cases.append({"kind": "profile", "secret": s, "salt": l, "alg": rng.choice(ALGS), "name": rng.choice(NAMES),
                      "domains": rng.choice([[], [], ["example.com"]]), "value": json.dumps(rand_json(rng))})
    do("profile-roundtrip", cases)

    # 6. the 4093-byte limit: every token length around the limit, for every digest
    cases = []
    for a in ALGS:
        s, l = SECRETS[ALGS.index(a)]
        lo, hi = ctx.scale((3050, 3090), (2900, 3300))
        for n in list(range(lo - DSIZE[a], hi - DSIZE[a])) + [0, 1, 100, 5000, 20000]:
            cases.append({"kind": "limit", "secret": s, "salt": l, "alg": a, "name": "session", "n": n,
                          "domains": [] if n % 2 else ["example.com"]})
    for n in list(range(4000, 4200)) + [0, 1, 2, 4093 * 2, 10 ** 5]:
        cases.append({"kind": "rawlimit", "name": "c", "domains": [] if n % 2 else ["example.com", "b.example.com"], "n": n})
    do("limit", cases, sum(1 for c in cases if c["kind"] == "rawlimit") + sum(1 for c in cases if c["kind"] == "limit" and 4080 <= len(ref_token(c["secret"], c["salt"], c["alg"], "x" * c["n"])) <= 4110))

    # 7. plain CookieProfile / Base64Serializer
    cases = [{"kind": "plain", "sub": "roundtrip", "value": json.dumps(v)} for v in PAYLOADS]
    for _ in range(ctx.scale(400, 8000)):
        v = rand_json(rng)
        t = base64.urlsafe_b64encode(ref_ser(v))
        cases.append({"kind": "plain", "sub": "roundtrip", "value": json.dumps(v)})
        cases.append({"kind": "plain", "sub": "loads", "token": mutate_bytes(rng, t).hex()})
        cases.append({"kind": "plain", "sub": "loads", "token": rand_junk(rng).hex()})
    for ci, (s, l, a) in enumerate(configs):
        cases.append({"kind": "plain", "sub": "custom", "secret": s, "salt": l, "alg": a,
                      "value": json.dumps(PAYLOADS[ci % len(PAYLOADS)])})
    do("plain-profile", cases)


def all_octets(ctx, ntok):
    """thorough: every position x every one of the 256 octets (substitution), for one token per digest"""
    for i in range(ntok):
        s, l = SECRETS[i]
        a = ALGS[i % 4]
        v = {"a": i}
        t = ref_token(s, l, a, v)
        for pos in range(len(t)):
            for c in range(256):
                if c != t[pos]:
                    yield {"kind": "loads", "secret": s, "salt": l, "alg": a, "value": json.dumps(v),
                           "token": (t[:pos] + bytes([c]) + t[pos + 1:]).hex(), "alteration": "sub-octet"}


# --------------------------------------------------------------------------- regenerated from the source tree
GEN_PATH = None


def read_cookie_tables():
    """The alphabets / attribute table of webob.cookies that decide how a signed token travels: read from the LIVE module of
    the tree under check.  Fail closed: anything not of the expected shape is a problem, never a guess."""
    import webob.cookies as ck
    problems = []
    t = {}
    for key, attr in (("allowed", "_allowed_cookie_bytes"), ("token", "_valid_token_bytes")):
        v = getattr(ck, attr, None)
        if not isinstance(v, bytes):
            problems.append("translator: webob.cookies.%s is not a bytes object" % attr)
            v = b""
        t[key] = sorted(set(v))
    keys = getattr(ck, "_c_keys", None)
    if not isinstance(keys, (set, frozenset)) or not all(isinstance(k, bytes) for k in keys):
        problems.append("translator: webob.cookies._c_keys is not a set of bytes")
        keys = set()
    t["c_keys"] = sorted(keys)
    ren = []
    try:
        if list(ck._c_valkeys) != sorted(ck._c_renames):
            raise ValueError("_c_valkeys is not sorted(_c_renames)")
        for k in ck._c_valkeys:
            info = ck._c_renames[k]
            q = info["quoter"]
            if q is ck._value_quote:
                tag = "QValue"
            elif q is ck._path_quote:
                tag = "QPath"
            else:
                raise ValueError("quoter of %r is neither _value_quote nor _path_quote" % k)
            if not isinstance(info["name"], bytes):
                raise ValueError("name of %r is not bytes" % k)
            ren.append((k, info["name"], tag))
    except Exception as e:  # noqa  -- fail closed
        problems.append("translator: _c_renames: %s" % e)
        ren = []
    t["renames"] = ren
    # the source of _value_quote must still be "translate away the allowed bytes; quote iff something is left"
    try:
        import ast
        import inspect
        src = inspect.getsource(ck._value_quote)
        names = {n.id for n in ast.walk(ast.parse(src)) if isinstance(n, ast.Name)}
        if "_allowed_cookie_bytes" not in names or "translate" not in src:
            raise ValueError("_value_quote no longer filters through _allowed_cookie_bytes")
    except Exception as e:  # noqa
        problems.append("translator: _value_quote: %s" % e)
    return t, problems


def gen(ctx):
    """Regenerate coq/Gen/C16_cookie_tables.v from $WEBOB_REPO/src/webob/cookies.py.  Proofs/C16_transport.v proves
    (by computation) that these tables ARE the tables under C07's model (Gen/C07_tables.v) and that the whole token alphabet
    lies inside _allowed_cookie_bytes; a tree whose tables differ makes the build fail."""
    import os

    def nlist(xs):
        return "[%s]" % "; ".join(str(x) for x in xs)

    def h(b):
        return '(H "%s"%%string)' % bytes(b).hex() if b else "(@nil N)"

    t, problems = read_cookie_tables()
    if not os.path.exists(os.path.join(fw.COQ, "Gen", "C07_tables.v")) or not os.path.exists(os.path.join(fw.COQ, "Gen", "C07_dates.v")):
        # C07's regenerated files are Required by the transport proofs; on a tree where C07's check (or --setup) has not
        # run yet, produce them with C07's own generator
        from harness.props import c07
        c07.gen(fw.Ctx("C07", "quick", 0))
    out = ["(* GENERATED from src/webob/cookies.py of the tree under check by harness/props/c16.py - do not edit *)",
           "From Coq Require Import NArith List String.", "Require Import Webob.Lib.Val Webob.Gen.C07_tables.",
           "Import ListNotations.", "Local Open Scope N_scope.",
           "Definition c16_allowed_cookie_bytes : list N := %s." % nlist(t["allowed"]),
           "Definition c16_valid_token_bytes : list N := %s." % nlist(t["token"]),
           "Definition c16_c_keys : list str := [%s]." % "; ".join(h(k) for k in t["c_keys"]),
           "Definition c16_c_renames : list (str * str * quoter) := [%s]." %
           "; ".join("(%s, %s, %s)" % (h(k), h(n), q) for k, n, q in t["renames"])]
    fw.write_if_changed(os.path.join(fw.COQ, "Gen", "C16_cookie_tables.v"), "\n".join(out) + "\n")
    ctx.extra["cookie_tables"] = {"allowed": len(t["allowed"]), "token": len(t["token"]), "c_keys": len(t["c_keys"]),
                                  "renames": [n.decode("latin-1") for _, n, _ in t["renames"]]}
    return problems



CLOSURE = ["Lib/Val.v", "Lib/PyStr.v", "Model/C16_signed.v", "Proofs/C16_signed.v", "Proofs/C16_b64alter.v",
           "Proofs/C16_examples.v",
           # the cookie transport is composed from C07's model and lemmas (read-only dependencies)
           "Lib/C07_Utf8.v", "Gen/C07_tables.v", "Model/C07_CookieCodec.v", "Spec/C07_CookieSpec.v", "Proofs/C07_tables.v",
           "Proofs/C07_output.v", "Proofs/C07_utf8.v", "Proofs/C07_input.v",
           "Gen/C16_cookie_tables.v", "Model/C16_transport.v", "Proofs/C16_transport.v", "Props/C16.v"]


def build(ctx):
    """ctx.build; if the shared make fails for a reason outside this property's files (coqdep scans every .v of the
    tree, so a file of another property that does not parse at that moment stops the build), compile this property's
    own closure directly with coqc -- the same kernel check of the same files."""
    import fcntl
    import os
    import re
    import subprocess
    if ctx.build(["Props/C16.vo"]):
        return
    mine = [b for b in ctx.broken if b.startswith("build of Props/C16.vo failed")]
    if not mine or re.search(r"C16_|Props/C16\.v|Lib/Val\.v|Lib/PyStr\.v|Lib/C07_Utf8\.v|Gen/C07_tables\.v|Model/C07_CookieCodec\.v|Spec/C07_CookieSpec\.v|"
                          r"Proofs/C07_(tables|output|utf8|input)\.v", mine[0].split("failed:", 1)[1]):
        return
    out = ""
    with open(os.path.join(fw.BUILD, "coq.lock"), "w") as lk:
        fcntl.flock(lk, fcntl.LOCK_EX)
        for f in CLOSURE:
            vo = os.path.join(fw.COQ, f + "o")
            if f != "Props/C16.v" and os.path.exists(vo) and os.path.getmtime(vo) >= os.path.getmtime(os.path.join(fw.COQ, f)):
                continue
            p = subprocess.run(["timeout", "900", "coqc", "-Q", ".", "Webob", "-w", "-all", f], cwd=fw.COQ,
                               capture_output=True, text=True)
            if p.returncode != 0:
                ctx.broken.append("direct build of %s failed: %s" % (f, (p.stderr or p.stdout)[-400:]))
                return
            out = p.stdout
    names = re.findall(r"^\s*(?:Theorem|Lemma|Corollary)\s+(\w+)", open(os.path.join(fw.COQ, "Props/C16.v")).read(), flags=re.M)
    closed = re.findall(r"^(Closed under the global context|Axioms:)", out, flags=re.M)
    if len(closed) != len(names) or "Axioms:" in out:
        ctx.broken.append("direct build: Print Assumptions reports %d closed of %d theorems" % (len(closed), len(names)))
        return
    ctx.broken.remove(mine[0])
    ctx.discharged += len(names)
    ctx.assumptions["Props/C16.vo"] = {"print_assumptions_outputs": len(closed), "closed_under_global_context": len(closed),
                                       "axioms": []}
    ctx.checker_cmd = "coqc -Q . Webob <closure of Props/C16.v> (direct; shared make stopped on another property's file)"
    ctx.note("shared make failed outside C16 (%s); C16's closure was compiled directly with coqc" % mine[0][:200])


# what coq/Model/C16_signed.v mirrors by hand (each Gallina definition's comment names its Python counterpart)
MODELLED = [
    "webob.cookies:SignedSerializer.__init__",      # salted_secret, latin1 / utf8 fallback, digest_size
    "webob.cookies:SignedSerializer.dumps",         # signed_dumps
    "webob.cookies:SignedSerializer.loads",         # b64padding, decoded, signed_loads_b, signed_loads
    "webob.cookies:Base64Serializer.dumps",         # b64ser_dumps
    "webob.cookies:Base64Serializer.loads",         # b64ser_loads
    "webob.cookies:CookieProfile.get_value",        # get_value_bound, get_value (repaired code)
    "webob.cookies:CookieProfile.get_headers",      # get_headers (value is not None)
    "webob.cookies:CookieProfile._get_cookies",     # get_headers: 4093 limit, one Set-Cookie per domain
    "webob.cookies:SignedCookieProfile.__init__",   # sprofile, sp_get_value / sp_get_headers wiring
    "webob.cookies:SignedCookieProfile.bind",       # sp_bind
    "webob.cookies:make_cookie",                    # mk_cookie_plain = C07's make_cookie on tokens (C16_set_cookie_line_is_make_cookie)
    # --- the cookie transport: Model/C16_transport.v composes C07's model (Model/C07_CookieCodec.v), tied by `cookie_transport`
    "webob.cookies:CookieProfile.set_cookies",      # set_cookie_line per domain, appended to the response's headerlist
    "webob.cookies:Morsel.serialize",               # C07 morsel_serialize via set_cookie_line
    "webob.cookies:_value_quote",                   # C07 value_quote; identity on tokens (C16_token_unquoted)
    "webob.cookies:_path_quote",                    # C07 path_quote (Domain / Path attributes)
    "webob.cookies:_valid_cookie_name",             # C07 valid_cookie_name (hypothesis of the cookie-level theorems)
    "webob.cookies:parse_cookie",                   # C07 parse_cookie
    "webob.cookies:_parse_cookie",                  # C07 parse_cookie_raw (findall scanner + unquote)
    "webob.cookies:_unquote",                       # C07 unquote; identity on tokens (C16_token_unquoted)
    "webob.cookies:_rx_cookie",                     # C07 findall scanner (structure checked by C07's gen)
    "webob.cookies:RequestCookies._cache",          # C07 request_cookies (utf-8 decode, later pair wins)
    "webob.cookies:RequestCookies.get",             # request_jar: dict_get on the cache
    "webob.request:BaseRequest.cookies",            # request_jar
    "webob.util:bytes_",                            # latin1 / utf8
    "base64:urlsafe_b64encode",                     # b64enc, b2a
    "base64:urlsafe_b64decode",                     # b64dec, a2b (urlsafe translation)
    "base64:b64decode",                             # validate=False -> binascii.a2b_base64 non-strict
    "binascii:a2b_base64",                          # a2b_loop (quad_pos / leftchar / pads state machine)
    "binascii:b2a_base64",                          # b64enc
]
# regenerated from the tree under check on every run by gen() into coq/Gen/C16_cookie_tables.v; Proofs/C16_transport.v proves by
# computation that they equal the tables under C07's model and that the token alphabet lies inside _allowed_cookie_bytes
REGENERATED = ["webob.cookies:_allowed_cookie_bytes", "webob.cookies:_valid_token_bytes", "webob.cookies:_c_keys",
               "webob.cookies:_c_valkeys", "webob.cookies:_c_renames"]
# exercised by the oracle (and as recorded external answers / transport in the correspondence), no Gallina counterpart
ORACLE_ONLY = [
    "webob.cookies:JSONSerializer.dumps", "webob.cookies:JSONSerializer.loads",      # ser / deser parameters of the model
    "webob.cookies:CookieProfile.__init__", "webob.cookies:CookieProfile.bind", "webob.cookies:CookieProfile.__call__",
    "webob.util:text_",
    "hmac:new", "hmac:compare_digest", "hashlib:new",                               # mac / dsize parameters of the model
]


def run(ctx):
    ctx.modelled(MODELLED)
    ctx.extra["regenerated_from_source"] = REGENERATED
    ctx.extra["oracle_only"] = ORACLE_ONLY
    try:
        for problem in gen(ctx):
            ctx.broken.append("gen: " + problem)
    except Exception:  # noqa  -- fail closed: the source no longer has the shape the generator reads
        import traceback
        ctx.broken.append("gen: coq/Gen/C16_cookie_tables.v could not be regenerated: " + traceback.format_exc()[-600:])
    build(ctx)
    correspondence(ctx)
    oracle(ctx)
    histories(ctx)
    configurations(ctx)
    pair_level(ctx)
    ctx.extra["rule"] = (
        "correspondence: generated (secret, salt, digest, JSON value) configurations; for each, the token issued by the real "
        "code, random alterations of it, junk and foreign tokens are presented to the real loads/get_value/get_headers and to "
        "the Gallina model, the model being given exactly the hmac and json answers the real code obtained (recorded by "
        "wrapping webob.cookies.hmac and JSONSerializer); b64dec/b64enc/salted_secret are compared directly with CPython/webob. "
        "oracle: the statement against an independent reference (stdlib hmac/base64/json): round trips for all payloads x "
        "secrets/salts x 4 digests; for issued tokens EVERY position x all 64 alphabet symbols + 16 outside octets "
        "(thorough: all 256), insertions, deletions, all truncations, extensions, re-padding, tag/payload splices, "
        "tag prefixes, foreign secret/salt/digest and wrongly derived keys; get_value through a real Request in several "
        "Cookie spellings; Set-Cookie->Cookie leg; every token length around 4093.  Non-trivial = every case (each presents "
        "a distinct token/config to the implementation); for `limit` only lengths within 4080..4110 are counted.  "
        "histories: ONE serializer / profile instance of each kind serves an interleaving of dumps/loads resp. "
        "get_headers/set_cookies/bind+get_value/re-query/re-cookie/unbound get_value with valid, same-prefix-tampered and "
        "foreign tokens (incl. secrets and salts longer than the hash block differing in the last character); every answer "
        "must equal a fresh object's and the reference's, and neither the unbound profile nor earlier bound copies may change; "
        "order: the same single calls in several orders within one process (module-level state).  "
        "configurations / argument-shapes: SignedCookieProfile under every cookie-attribute set (secure, httponly, max_age, path, "
        "samesite incl. refused ones) supplied by keyword, positionally, after construction or per call, x SAMESITE_VALIDATION, "
        "_should_raise, 10 digests, str/bytes/mixed secrets, None/JSON/pass-through serializer, list/tuple/empty domains, three "
        "request classes, http/https, four kinds of response; SignedSerializer constructor shapes, loads of "
        "bytes/str/bytearray/memoryview/None/int/list, values outside strict JSON, and inputs outside the statement's domain.  "
        "pair-level: tokens of a different (secret, salt) pair that shares the HMAC key (concatenation boundary, latin-1 vs "
        "utf-8 fallback, trailing NULs, long key vs its hash) must be rejected; acceptances are classified per mechanism.")
    ctx.extra["exhaustive"] = False
    ctx.assume += [
        "HMAC unforgeability is the cryptographic assumption of the property: the theorems prove that any accepted token "
        "carries a full-length valid tag under the loader's salted secret over exactly the octets deserialised; they do not "
        "prove that such a tag cannot be produced without the key",
        "laws assumed of the external functions: len(hmac digest) = digest_size; serializer.loads(serializer.dumps(v)) == v "
        "and both raise only ValueError (json on JSON values: None/bool/int/finite float/str/list/dict with str keys)",
        "the browser leg (a value over the base64url alphabet is emitted unquoted by make_cookie and read back unchanged "
        "from the Cookie header) is a hypothesis of C16_profile_roundtrip, swept on the real code here and proved under C07",
        "secret and salt are str (bytes arguments behave like latin-1 text); salt=None is salt=''",
    ]
    ctx.trusted += [
        "Gallina transcription of binascii.a2b_base64 (non-strict) / urlsafe alphabet, validated against CPython on every run",
        "recording proxies for hmac.new and JSONSerializer.loads/dumps installed by the harness (the real functions still run)",
        "reference implementation of the token format in harness/props/c16.py (stdlib hmac/base64/json)",
    ]


def replay(ctx, path):
    data = json.load(open(path))
    case = data["case"]
    if not isinstance(case, dict) or case.get("kind") not in CHECKS:
        print("replay: nothing executable in this file (broken obligation): %s" % data.get("what"))
        return 1
    res = run_case(case)
    if res:
        print("VIOLATION property=C16 replay=%s" % path)
        print("  (%s) %s" % res)
        return 1
    print("replay passes on the current tree")
    return 0
