"""C11 — entity-tag lists: If-Match / If-None-Match / If-Range membership, Response.etag round trip.

Ties to the source
  * gen(ctx): the two compiled patterns webob uses (the one ETagMatcher.parse calls .findall on, the one
    parse_etag_response / serialize_etag_response call .match on) are read from the LIVE module objects,
    parsed with CPython's re._parser, checked against the only shape the model understands
    ((?:^|PRE)(W/)?"BODY") -- fail-closed -- and their free parameters are emitted into coq/Gen/C11_rx.v.
    The theorems in Props/C11.v are about the model instantiated with exactly these parameters, so a change of
    the separator class or of the body alternative breaks the build of the proofs.
  * correspondence of Model/C11_etag.v (findall, match, getters, If-Range, Response.etag set/get) with webob.
  * oracle: the property statement evaluated on the public API (Request/Response) against an independent
    reference (the list of tags the header was rendered from).
"""
import itertools
import json
import os

from harness import fw, rxgen
from harness.fw import Err, catch, cstr, clist, cpair, copt, cbool

IMPORTS = ["Webob.Lib.Rx", "Webob.Gen.C11_rx", "Webob.Model.C11_etag"]
GEN = os.path.join(fw.COQ, "Gen", "C11_rx.v")


# =========================================================================== translator (gen)
class Stop(Exception):
    pass


def _space_ranges():
    import re
    rx = re.compile(r"\s")
    return _ranges([c for c in range(0x110000) if rx.match(chr(c))])


def _ranges(cs):
    out = []
    for c in sorted(set(cs)):
        if out and out[-1][1] == c - 1:
            out[-1][1] = c
        else:
            out.append([c, c])
    return [tuple(r) for r in out]


def _class_ranges(items):
    import re._constants as sc
    rs = []
    for op, a in items:
        if op == sc.LITERAL:
            rs.append((a, a))
        elif op == sc.RANGE:
            rs.append(tuple(a))
        elif op == sc.CATEGORY and a == sc.CATEGORY_SPACE:
            rs += _space_ranges()
        else:
            raise Stop("character class item %s %r not understood" % (op, a))
    cs = set()
    for lo, hi in rs:
        if hi - lo > 100000:
            raise Stop("character class range too large")
        cs.update(range(lo, hi + 1))
    return _ranges(cs)


def translate_pattern(pat):
    """compiled pattern -> dict(pre=ranges, esc=bool, excl=ranges); raises Stop on any other shape."""
    import re
    import re._parser as sp
    import re._constants as sc
    if pat.flags != re.UNICODE:
        raise Stop("flags %r" % pat.flags)
    t = list(sp.parse(pat.pattern))
    if len(t) != 5:
        raise Stop("expected 5 top-level items, got %d" % len(t))
    # (?:^|PRE)
    op, a = t[0]
    if op != sc.BRANCH or a[0] is not None or len(a[1]) != 2 or list(a[1][0]) != [(sc.AT, sc.AT_BEGINNING)]:
        raise Stop("prefix is not (?:^|...)")
    alt = list(a[1][1])
    if len(alt) != 1:
        raise Stop("prefix alternative is not one character")
    if alt[0][0] == sc.IN:
        pre = _class_ranges(alt[0][1])
    elif alt[0][0] == sc.LITERAL:
        pre = [(alt[0][1], alt[0][1])]
    else:
        raise Stop("prefix alternative %r" % (alt[0],))
    # (W/)?
    op, a = t[1]
    if op != sc.MAX_REPEAT or a[0] != 0 or a[1] != 1:
        raise Stop("weak marker is not a greedy optional")
    sub = list(a[2])
    if len(sub) != 1 or sub[0][0] != sc.SUBPATTERN or sub[0][1][0] != 1 or \
            list(sub[0][1][3]) != [(sc.LITERAL, 87), (sc.LITERAL, 47)]:
        raise Stop("weak marker is not group 1 = W/")
    if t[2] != (sc.LITERAL, 34) or t[4] != (sc.LITERAL, 34):
        raise Stop("tag is not delimited by double quotes")
    # ( BODY )
    op, a = t[3]
    if op != sc.SUBPATTERN or a[0] != 2 or a[1] != 0 or a[2] != 0:
        raise Stop("body is not plain group 2")
    body = list(a[3])
    if len(body) != 1 or body[0][0] not in (sc.MIN_REPEAT, sc.MAX_REPEAT):
        raise Stop("body is not one repeat")
    rop, (lo, hi, inner) = body[0]
    inner = list(inner)
    if lo != 0 or hi != sc.MAXREPEAT or len(inner) != 1:
        raise Stop("body repeat is not *")
    any_excl = [(10, 10)]  # `.` without DOTALL
    if rop == sc.MIN_REPEAT and inner[0][0] == sc.BRANCH:
        alts = [list(x) for x in inner[0][1][1]]
        if alts != [[(sc.LITERAL, 92), (sc.LITERAL, 34)], [(sc.ANY, None)]]:
            raise Stop("lazy body alternatives %r" % (alts,))
        return {"pre": pre, "esc": True, "excl": any_excl}
    if rop == sc.MIN_REPEAT and inner[0] == (sc.ANY, None):
        return {"pre": pre, "esc": False, "excl": any_excl}
    if rop == sc.MAX_REPEAT and inner[0] == (sc.NOT_LITERAL, 34):
        return {"pre": pre, "esc": False, "excl": [(34, 34)]}
    if rop == sc.MAX_REPEAT and inner[0][0] == sc.IN and inner[0][1][0] == (sc.NEGATE, None):
        ex = _class_ranges(inner[0][1][1:])
        if not any(lo_ <= 34 <= hi_ for lo_, hi_ in ex):
            raise Stop("greedy body may cross a double quote")
        return {"pre": pre, "esc": False, "excl": ex}
    raise Stop("body %r" % (body,))


def _patterns_used(fn):
    """compiled patterns among the globals a function refers to"""
    import re
    out = []
    for name in fn.__code__.co_names:
        v = fn.__globals__.get(name)
        if isinstance(v, re.Pattern):
            out.append((name, v))
    return out


def live_patterns():
    import webob.etag as E
    import webob.descriptors as D
    lst = _patterns_used(E.ETagMatcher.parse.__func__)
    rsp = _patterns_used(D.parse_etag_response)
    ser = _patterns_used(D.serialize_etag_response)
    if len(lst) != 1:
        raise Stop("ETagMatcher.parse uses %d compiled patterns" % len(lst))
    if len(rsp) != 1 or len(ser) != 1 or rsp[0][1] is not ser[0][1]:
        raise Stop("parse_etag_response / serialize_etag_response do not share one compiled pattern")
    return lst[0], rsp[0]


def asctime_pattern():
    """the compiled pattern IfRange.parse full-matches a value with before reading it as a zone-less (asctime) date;
    None when IfRange.parse uses no pattern"""
    import webob.etag as E
    pats = _patterns_used(E.IfRange.parse.__func__)
    if len(pats) > 1:
        raise Stop("IfRange.parse uses %d compiled patterns" % len(pats))
    if pats and "fullmatch" not in E.IfRange.parse.__func__.__code__.co_names:
        raise Stop("IfRange.parse does not use fullmatch on its pattern")
    return pats[0] if pats else None


def _cr(rs):
    return "[%s]" % "; ".join("(%d, %d)" % r for r in rs)


def _incomment(p):
    return p.replace('"', "\\x22").replace("*)", "* )").replace("(*", "( *")


def gen(ctx):
    """Regenerate coq/Gen/C11_rx.v; returns None or the reason the translator stopped."""
    try:
        (ln, lp), (rn, rp) = live_patterns()
        L, R = translate_pattern(lp), translate_pattern(rp)
        ap = asctime_pattern()
        if ap is None:
            asc_term, asc_src = "Emp", "(none: IfRange.parse full-matches no pattern)"
        else:
            asc_term, _ = rxgen.full_mode(ap[1].pattern + r"\Z", ap[1].flags)      # fullmatch(p) = match(p + \Z)
            asc_src = "webob.etag.%s = %s" % (ap[0], _incomment(ap[1].pattern))
    except Stop as e:
        return "C11 translator stopped (fail-closed): %s" % e
    except Exception as e:  # noqa -- rxgen.Untranslatable and friends
        return "C11 translator stopped (fail-closed) on the asctime pattern: %s: %s" % (type(e).__name__, e)
    txt = "(* REGENERATED on every run by harness/props/c11.py from the live webob pattern objects. Do not edit.\n"
    txt += "   list scanner  webob.etag.%s        = %s\n" % (ln, _incomment(lp.pattern))
    txt += "   response side webob.descriptors.%s = %s *)\n" % (rn, _incomment(rp.pattern))
    txt = txt[:-4] + "\n   asctime shape " + asc_src + " *)\n"
    txt += "From Coq Require Import NArith List Bool.\nRequire Import Webob.Lib.Val Webob.Lib.Rx.\n"
    txt += "Import ListNotations.\nLocal Open Scope N_scope.\n"
    for p, d in (("lst", L), ("rsp", R)):
        txt += "Definition %s_pre : list (N * N) := %s.\n" % (p, _cr(d["pre"]))
        txt += "Definition %s_esc : bool := %s.\n" % (p, cbool(d["esc"]))
        txt += "Definition %s_excl : list (N * N) := %s.\n" % (p, _cr(d["excl"]))
    txt += "Definition asctime_rx : rx := %s.\n" % asc_term
    fw.write_if_changed(GEN, txt)
    return None


# =========================================================================== Coq literals
def costr(s):
    return copt(None if s is None else cstr(s))


def cZopt(z):
    return "None" if z is None else "(Some (%d)%%Z)" % z


def carg(a):
    if a[0] == "str":
        return "(EStr %s)" % cstr(a[1])
    return "(EPair %s %s)" % (cstr(a[1]), cbool(a[2]))


# =========================================================================== adaptors (the real webob)
def _pat(which):
    (_, lp), (_, rp) = live_patterns()
    return lp if which == "lst" else rp


def impl_scan(which, s):
    pat = _pat(which)
    m = pat.match(s)
    return [[[bool(w), t] for w, t in pat.findall(s)], None if not m else [bool(m.group(1)), m.group(2)]]


def v_matcher(m):
    from webob.etag import ETagMatcher, _AnyETag, _NoETag
    if type(m) is _AnyETag:
        return [0]
    if type(m) is _NoETag:
        return [1]
    if type(m) is ETagMatcher:
        return [2, list(m.etags)]
    return Err("not-a-matcher:" + type(m).__name__)


HDR_NAME = {"IF_MATCH": "If-Match", "IF_NONE_MATCH": "If-None-Match", "IF_RANGE": "If-Range"}
HDR_ATTR = {"IF_MATCH": "if_match", "IF_NONE_MATCH": "if_none_match", "IF_RANGE": "if_range"}
# every way a header value can reach the getters (configurations / argument shapes of the Request side)
REQ_STYLES = ["environ", "headers", "headers-lower", "base-environ", "headers-view", "ctor-kw", "attr", "subclass-copy"]


def mk_request(_style="environ", **hdrs):
    """Request carrying the given raw header values (None = header absent), built in the way `_style` says:
    environ       Request.blank + environ['HTTP_...'] = v afterwards
    headers       Request.blank(headers={'If-Match': v})            headers-lower  the same with lower-case names
    base-environ  BaseRequest(environ dict)                          headers-view   req.headers['IF-MATCH'] = v afterwards
    ctor-kw       Request.blank('/', if_match=v) (attribute setter through the constructor)
    attr          req.if_match = v afterwards                        subclass-copy  a POST Request subclass, then .copy()"""
    from webob import Request, BaseRequest
    present = {k: v for k, v in hdrs.items() if v is not None}
    if _style == "headers":
        return Request.blank("/", headers={HDR_NAME[k]: v for k, v in present.items()})
    if _style == "headers-lower":
        return Request.blank("/p?q=1", headers={HDR_NAME[k].lower(): v for k, v in present.items()})
    if _style == "base-environ":
        env = dict(Request.blank("/").environ)
        env.update({"HTTP_" + k: v for k, v in present.items()})
        return BaseRequest(env)
    if _style == "ctor-kw":
        return Request.blank("/", **{HDR_ATTR[k]: v for k, v in present.items()})
    if _style == "subclass-copy":
        class SubRequest(Request):
            request_body_tempfile_limit = 1
        req = SubRequest.blank("/x", POST={"a": "1"}, environ={"wsgi.url_scheme": "https", "REMOTE_USER": "u"})
        for k, v in present.items():
            req.environ["HTTP_" + k] = v
        return req.copy()
    req = Request.blank("/")
    for k, v in present.items():
        if _style == "headers-view":
            req.headers[HDR_NAME[k].upper()] = v
        elif _style == "attr":
            setattr(req, HDR_ATTR[k], v)
        else:
            req.environ["HTTP_" + k] = v
    return req


RESP_CFGS = ["plain", "subclass", "status-charset", "preexisting-etag-headers", "exc", "conditional"]


def new_response(cfg="plain", **kw):
    """A Response in one of the configurations that must not influence the ETag (class attributes overridden in a
    subclass, status text, charset, headers already present under other spellings, an exception instance)."""
    from webob import Response
    import webob.exc
    if cfg == "subclass":
        class SubResponse(Response):
            default_charset = "latin-1"
            default_content_type = "text/plain"
            default_conditional_response = True
        return SubResponse(**kw)
    if cfg == "status-charset":
        return Response(status="200 Fine", charset="latin-1", body=b"x", **kw)
    if cfg == "preexisting-etag-headers":
        r = Response(headerlist=[("etag", '"old"'), ("Content-Type", "text/plain"), ("ETAG", 'W/"older"')])
        for k, v in kw.items():
            setattr(r, k, v)
        return r
    if cfg == "exc":
        r = webob.exc.HTTPOk()
        for k, v in kw.items():
            setattr(r, k, v)
        return r
    if cfg == "conditional":
        return Response(status=206, conditional_response=True, app_iter=[b"ab", b"c"], **kw)
    return Response(**kw)


def impl_getters(value, probes, style="environ"):
    req = mk_request(style, IF_MATCH=value, IF_NONE_MATCH=value)
    im, inm = req.if_match, req.if_none_match
    return [v_matcher(im), [p in im for p in probes], v_matcher(inm), [p in inm for p in probes]]


def impl_set_etag(arg, cfg="plain"):
    resp = new_response(cfg)
    try:
        resp.etag = arg[1] if arg[0] == "str" else (arg[1], arg[2])
    except ValueError:
        return Err("ValueError")
    return [resp.headers.get("ETag"), resp.etag, resp.etag_strong]


def mk_response(etag_hdr=None, lm_hdr=None, cfg="plain"):
    resp = new_response(cfg)
    if cfg == "preexisting-etag-headers":
        del resp.headers["ETag"]
    if etag_hdr is not None:
        resp.headers["ETag"] = etag_hdr
    if lm_hdr is not None:
        resp.headers["Last-Modified"] = lm_hdr
    return resp


def impl_raw_etag(h):
    resp = mk_response(h)
    return [resp.etag, resp.etag_strong]


def ts(dt):
    import calendar
    return None if dt is None else calendar.timegm(dt.utctimetuple())


def real_parse_date(s):
    from webob.datetime_utils import parse_date
    return ts(parse_date(s))


def in_if_range(resp, ir):
    """`resp in ir`; the TypeError of IfRangeDate(None) (a value ending in ' GMT' that is no date) against a response
    that has Last-Modified is canonicalised to 'no match': that corner is outside C11 (fixes/C06-*-if-range-bad-date)."""
    from webob.etag import IfRangeDate
    try:
        return bool(resp in ir)
    except TypeError:
        if isinstance(ir, IfRangeDate) and ir.date is None:
            return False
        raise


def impl_if_range(value, resps, style="environ"):
    from webob.etag import IfRange, IfRangeDate
    req = mk_request(style, IF_RANGE=value)
    ir = req.if_range
    if type(ir) is IfRange:
        head = [0, v_matcher(ir.etag)]
    elif type(ir) is IfRangeDate:
        head = [1, ts(ir.date)]
    else:
        head = Err("not-an-if-range:" + type(ir).__name__)
    return [head, [in_if_range(mk_response(e, l, RESP_CFGS[i % len(RESP_CFGS)]), ir) for i, (e, l) in enumerate(resps)]]


# =========================================================================== reference rendering (RFC 7232)
def render_tag(w, t):
    return ("W/" if w else "") + '"' + t + '"'


def render(items, lead="", trail=""):
    """items: [(sep_before, weak, tag)], the first sep_before is ignored in favour of `lead`."""
    out = lead
    for i, (sep, w, t) in enumerate(items):
        out += (sep if i else "") + render_tag(w, t)
    return out + trail


SEPS_RFC = [",", ", ", " ,", " , ", "\t,\t", ",\t", ",,", ", ,", " ,  , "]     # OWS "," OWS, also with empty elements
TAG_ALPHA = ["a", ",", " ", "\\", "\xe9"]


def fmt_date(t):
    from email.utils import formatdate
    return formatdate(t, usegmt=True)


# =========================================================================== the property oracle (public API only)
def oracle_list(items, lead="", trail="", probes=None, style="environ", classify=True):
    """If-Match / If-None-Match carrying the rendered list: membership must be exact.  Returns (key, msg) or None."""
    value = render(items, lead, trail)
    req = mk_request(style, IF_MATCH=value, IF_NONE_MATCH=value)
    alltags = [t for _, _, t in items]
    strong = [t for _, w, t in items if not w]
    if probes is None:
        probes = list(alltags)
        for t in alltags[:3]:
            probes += [t + "x", t[:-1], t + '"', t + "\\", '"' + t + '"', "W/" + t, t + ", ", t + ","]
        probes += ["", "*", "zz", value, None]
        # probe shapes outside str: never members, never an exception
        probes += [alltags[0].encode("utf-8"), 5, 1.5, (alltags[0],), _StrSub(alltags[0] + "~")]
    try:
        im, inm = req.if_match, req.if_none_match
        for p in probes:
            got_inm, got_im = p in inm, p in im
            if got_inm is not (p in alltags):
                return (classify_list(items, lead, trail) if classify else "x"), \
                    "If-None-Match: %s -- (%r in request.if_none_match) is %r, the list %s that tag" % (
                        value, p, got_inm, "contains" if p in alltags else "does not contain")
            if got_im is not (p in strong):
                return (classify_list(items, lead, trail) if classify else "x"), \
                    "If-Match: %s -- (%r in request.if_match) is %r, the list %s that tag as a strong tag" % (
                        value, p, got_im, "contains" if p in strong else "does not contain")
    except Exception as e:  # noqa
        return "etag-list:raises:" + type(e).__name__, "If-Match/If-None-Match: %s -- %s: %s" % (value, type(e).__name__, e)
    return None


class _StrSub(str):
    pass


def _passes(items, lead="", trail=""):
    return oracle_list(items, lead, trail, classify=False) is None


def classify_list(items, lead, trail):
    """A specific key for a failing list: which spelling feature makes it fail."""
    canon = [(", ", w, t) for _, w, t in items]
    if _passes(canon):
        # the same tags are read correctly with ', ' separators: the separator spelling is what fails
        tight = any(s and s[-1] == "," for s, _, _ in items[1:]) or (lead and lead[-1] == ",")
        return "etag-list:no-whitespace-before-tag" if tight else "etag-list:separator-spelling"
    nobs = [(", ", w, t.rstrip("\\") + ("_" if t.endswith("\\") else "")) for _, w, t in items]
    if any(t.endswith("\\") for _, _, t in items) and _passes(nobs):
        return "etag-list:backslash-before-closing-quote"
    return "etag-list:membership"


def oracle_star_absent():
    from webob import Request
    probes = ["", "a", "*", '"a"', "W/a", "\xe9", None]
    for value in (None, "", "*"):
        for style in ("environ", "headers"):
            if style == "headers" and value is None:
                req = Request.blank("/")
            elif style == "headers":
                req = Request.blank("/", headers={"If-Match": value, "If-None-Match": value})
            else:
                req = mk_request(IF_MATCH=value, IF_NONE_MATCH=value)
            for p in probes:
                want_im = True
                want_inm = value == "*"
                if (p in req.if_match) is not want_im:
                    return "star-absent:if-match", "If-Match %r: (%r in request.if_match) is not %r" % (value, p, want_im)
                if (p in req.if_none_match) is not want_inm:
                    return "star-absent:if-none-match", \
                        "If-None-Match %r: (%r in request.if_none_match) is not %r" % (value, p, want_inm)
    return None


SET_HOWS = ["str", "pair", "ctor", "strsub", "pair-int", "pair-obj", "namedtuple", "after-none", "after-del"]


def etag_arg_value(v, strong, how):
    """the Python object assigned to Response.etag for a (v, strong) of the statement, in the shape `how`"""
    import collections
    if strong is None:
        return _StrSub(v) if how == "strsub" else v
    if how == "pair-int":
        return (v, 1 if strong else 0)
    if how == "pair-obj":
        return (v, "yes" if strong else (None if len(v) % 2 else ""))
    if how == "namedtuple":
        return collections.namedtuple("ETagArg", "value strong")(v, strong)
    if how == "strsub":
        return (_StrSub(v), strong)
    return (v, strong)


def set_response_etag(v, strong, how, cfg="plain"):
    """how: see SET_HOWS -- 'str'/'strsub' with strong=None assign the text, the pair forms assign (v, strong) with the
    flag spelled as bool / int / other truthy-falsy object / namedtuple; 'ctor' passes etag= to the constructor;
    'after-none' / 'after-del' first set another tag and remove it again."""
    val = etag_arg_value(v, strong, how)
    if how == "ctor":
        return new_response(cfg, etag=val)
    resp = new_response(cfg)
    if how in ("after-none", "after-del"):
        resp.etag = ("previous", strong is False)
        if how == "after-none":
            resp.etag = None
        else:
            del resp.etag
        if resp.headers.get("ETag") is not None or resp.etag is not None:
            raise AssertionError("removing Response.etag left %r" % resp.headers.getall("ETag"))
    resp.etag = val
    return resp


def oracle_etag(v, strong, how, neighbours=("x", "y"), sep=", ", cfg="plain", style="environ"):
    """Response.etag set from v / (v, strong): one quoted entity-tag, reads back, matches when echoed."""
    st = True if strong is None else strong
    try:
        resp = set_response_etag(v, strong, how, cfg)
        raw = resp.headers.get("ETag")
        want = ("" if st else "W/") + '"' + v + '"'
        if raw != want or len(resp.headers.getall("ETag")) != 1:
            return "etag-response:not-one-quoted-tag", "Response.etag = %r (strong=%r, %s, %s response): ETag headers are %r, " \
                                                       "expected exactly [%r]" % (v, strong, how, cfg, resp.headers.getall("ETag"), want)
        if resp.etag != v:
            return "etag-response:read-back", "Response.etag = %r (strong=%r): reads back as %r" % (v, strong, resp.etag)
        if resp.etag_strong != (v if st else None):
            return "etag-response:etag-strong", "Response.etag = %r (strong=%r): etag_strong is %r" % (
                v, strong, resp.etag_strong)
        # echoed alone and inside a list, in every separator position
        a, b = neighbours
        me = (not st, v)
        for lst in ([me], [(False, a), me], [me, (True, b)], [(True, a), me, (False, b)]):
            echo = sep.join(render_tag(w, t) for w, t in lst)
            want_im = any(t == v and not w for w, t in lst)
            req = mk_request(style, IF_MATCH=echo, IF_NONE_MATCH=echo)
            if (resp.etag in req.if_none_match) is not True:
                return classify_echo(lst, sep), "ETag %s echoed as If-None-Match: %s does not match the response" % (raw, echo)
            if (resp.etag in req.if_match) is not want_im:
                return classify_echo(lst, sep), "ETag %s echoed as If-Match: %s: match is %r, expected %r" % (
                    raw, echo, resp.etag in req.if_match, want_im)
        req = mk_request(style, IF_RANGE=raw)
        if (resp in req.if_range) is not st:
            return "etag-response:echo-if-range", "ETag %s echoed as If-Range: (resp in request.if_range) is %r, expected %r" % (
                raw, resp in req.if_range, st)
    except Exception as e:  # noqa
        return "etag-response:raises:" + type(e).__name__, "Response.etag = %r (strong=%r, %s): %s: %s" % (
            v, strong, how, type(e).__name__, e)
    return None


def classify_echo(lst, sep):
    k = classify_list([(sep, w, t) for w, t in lst], "", "")
    return "etag-response:echo" if k == "etag-list:membership" else k


def oracle_if_range_tag(t, weak, resp_specs, style="environ"):
    """If-Range: "t" (or W/"t") matches only a response whose strong ETag equals t (and does match it when strong)."""
    value = render_tag(weak, t)
    try:
        req = mk_request(style, IF_RANGE=value)
        ir = req.if_range
        for i, (v, strong) in enumerate(resp_specs):
            cfg = RESP_CFGS[(i + len(t)) % len(RESP_CFGS)]
            resp = set_response_etag(v, strong, "pair", cfg) if v is not None else mk_response(cfg=cfg)
            if i % 2:
                resp.headers["Last-Modified"] = fmt_date(0)      # a tag mistaken for a date would match this
            has_strong = v is not None and strong and v == t
            got = resp in ir
            if got and not has_strong:
                return "if-range:tag-matches-wrong-response", "If-Range: %s matches a response with ETag %r" % (
                    value, resp.headers.get("ETag"))
            if (not weak) and has_strong and not got:
                return "if-range:tag-does-not-match", "If-Range: %s does not match the response with ETag %r" % (
                    value, resp.headers.get("ETag"))
    except Exception as e:  # noqa
        return "if-range:raises:" + type(e).__name__, "If-Range: %s -- %s: %s" % (value, type(e).__name__, e)
    return None


NEAR_DATES = ["imf-no-gmt", "rfc850-no-gmt", "asctime+0000", "asctime-utc", "asctime-z", "asctime-est", "lower-case",
              "upper-case", "one-space-day", "leading-space", "trailing-space", "comma", "two-digit-year", "iso", "imf-utc",
              "no-day-name", "tab"]


def near_date(d, variant):
    """texts that email.utils can read as the instant d but that are NOT HTTP-dates (RFC 7231 7.1.1.1)"""
    import time
    g = time.gmtime(d)
    a, imf = fmt_asctime(d), fmt_date(d)
    return {
        "imf-no-gmt": imf[:-4], "rfc850-no-gmt": time.strftime("%A, %d-%b-%y %H:%M:%S", g),
        "asctime+0000": a + " +0000", "asctime-utc": a + " UTC", "asctime-z": a + " Z", "asctime-est": a + " EST",
        "lower-case": a.lower(), "upper-case": a.upper(), "one-space-day": a[:8] + a[8:].lstrip(" ") if a[8] == " " else a[:8] + a[9:],
        "leading-space": " " + a, "trailing-space": a + " ", "comma": a[:3] + "," + a[3:],
        "two-digit-year": a[:-4] + a[-2:], "iso": time.strftime("%Y-%m-%dT%H:%M:%S", g), "imf-utc": imf[:-3] + "UTC",
        "no-day-name": a[4:], "tab": a.replace(" ", "\t", 1),
    }[variant]


def oracle_if_range_near_date(d, variant, style="environ"):
    """a text that is neither an entity-tag nor an HTTP-date must not be honoured as a date: a response that only has
    an old enough Last-Modified (and no ETag, or another ETag) does not match it"""
    from webob.etag import IfRangeDate
    value = near_date(d, variant)
    try:
        req = mk_request(style, IF_RANGE=value)
        ir = req.if_range
        for cfg, etag in (("plain", None), ("subclass", ("other", True))):
            resp = new_response(cfg)
            if etag:
                resp.etag = etag
            set_last_modified(resp, max(0, d - 10), "header")
            if resp in ir or isinstance(ir, IfRangeDate):
                return ("if-range:non-date-read-as-date",
                        "If-Range: %r (%s: not an HTTP-date) is honoured as a date: request.if_range = %r matches a response "
                        "with Last-Modified %r" % (value, variant, ir, resp.headers.get("Last-Modified")))
    except Exception as e:  # noqa
        return "if-range:raises:" + type(e).__name__, "If-Range: %r -- %s: %s" % (value, type(e).__name__, e)
    return None


def set_last_modified(resp, lm, how):
    """Last-Modified = the instant lm (seconds), given in the shape `how`"""
    import datetime
    utc = datetime.timezone.utc
    if how == "header":
        resp.headers["Last-Modified"] = fmt_date(lm)
    elif how == "attr":
        resp.last_modified = datetime.datetime.fromtimestamp(lm, utc)
    elif how == "naive":
        resp.last_modified = datetime.datetime.fromtimestamp(lm, utc).replace(tzinfo=None)
    elif how == "aware+5":
        try:
            tz = datetime.timezone(datetime.timedelta(hours=5, minutes=30))
            resp.last_modified = datetime.datetime.fromtimestamp(lm, tz)
        except (OverflowError, ValueError):      # 31 Dec 9999 has no +05:30 spelling: use a western zone instead
            tz = datetime.timezone(datetime.timedelta(hours=-5, minutes=-30))
            resp.last_modified = datetime.datetime.fromtimestamp(lm, tz)
    elif how == "int":
        resp.last_modified = lm
    elif how == "text":
        resp.last_modified = fmt_date(lm)
    else:
        raise ValueError(how)


LM_HOWS = ["header", "attr", "naive", "aware+5", "int", "text"]
DATE_FORMS = ["imf", "rfc850", "asctime", "attr-datetime", "attr-naive"]
_DAYS = ["Mon", "Tue", "Wed", "Thu", "Fri", "Sat", "Sun"]
_MONS = ["Jan", "Feb", "Mar", "Apr", "May", "Jun", "Jul", "Aug", "Sep", "Oct", "Nov", "Dec"]


def fmt_asctime(t):
    """RFC 7231 7.1.1.1 asctime-date: day-name SP month SP ( 2DIGIT / SP DIGIT ) SP time SP year -- no zone, GMT"""
    import time
    g = time.gmtime(t)
    return "%s %s %2d %02d:%02d:%02d %04d" % (_DAYS[g.tm_wday], _MONS[g.tm_mon - 1], g.tm_mday, g.tm_hour, g.tm_min,
                                               g.tm_sec, g.tm_year)


def oracle_if_range_date(d, lms, how="header", form="imf", style="environ"):
    """If-Range: <HTTP-date d> matches exactly the responses whose Last-Modified is not later than d."""
    import datetime
    import time
    utc = datetime.timezone.utc
    value = fmt_date(d)
    try:
        if form == "rfc850" and 0 <= d < 2145916800:        # obsolete form, two-digit year: 1970..2037 only
            value = time.strftime("%A, %d-%b-%y %H:%M:%S GMT", time.gmtime(d))
            req = mk_request(style, IF_RANGE=value)
        elif form == "asctime":                              # obsolete form without a zone
            value = fmt_asctime(d)
            req = mk_request(style, IF_RANGE=value)
        elif form == "attr-datetime":                        # request.if_range = datetime (serialize_if_range)
            req = mk_request()
            req.if_range = datetime.datetime.fromtimestamp(d, utc)
        elif form == "attr-naive":
            req = mk_request()
            req.if_range = datetime.datetime.fromtimestamp(d, utc).replace(tzinfo=None)
        else:
            req = mk_request(style, IF_RANGE=value)
        ir = req.if_range
        for i, lm in enumerate(lms):
            resp = new_response(RESP_CFGS[(i + d) % len(RESP_CFGS)])
            if lm is None:
                want = False
            else:
                set_last_modified(resp, lm, how)
                want = lm <= d
            got = resp in ir
            if bool(got) is not want:
                key = "if-range:asctime-date-not-recognised" if form == "asctime" else "if-range:date"
                return key, "If-Range: %s (%s) against Last-Modified %r (%s): match is %r, expected %r" % (
                    req.environ.get("HTTP_IF_RANGE"), form, resp.headers.get("Last-Modified"), how, got, want)
        if not (new_response() in mk_request(style).if_range and
                mk_response('"x"', fmt_date(d)) in mk_request(style, IF_RANGE="").if_range):
            return "if-range:absent", "an absent/empty If-Range does not match every response"
    except Exception as e:  # noqa
        return "if-range:raises:" + type(e).__name__, "If-Range: %s -- %s: %s" % (value, type(e).__name__, e)
    return None


def oracle_malformed(value, style="environ"):
    """Any header value: every getter returns a matcher, and tag membership answers with a bool."""
    from webob.etag import ETagMatcher, IfRange, IfRangeDate, _AnyETag, _NoETag
    from webob import Response
    for which in ("if_match", "if_none_match", "if_range"):
        key = {"if_match": "IF_MATCH", "if_none_match": "IF_NONE_MATCH", "if_range": "IF_RANGE"}[which]
        try:
            m = getattr(mk_request(style, **{key: value}), which)
        except Exception as e:  # noqa
            if which == "if_range" and value.endswith(" GMT") and isinstance(e, (ValueError, OverflowError, OSError)):
                key = "if-range:unrepresentable-date-raises"     # parse_date lets datetime/mktime_tz errors escape
            else:
                key = "getter-raises:%s:%s" % (which, type(e).__name__)
            return key, "request.%s raises %s (%s) for the header value %r" % (which, type(e).__name__, e, value)
        if which == "if_range":
            if type(m) not in (IfRange, IfRangeDate):
                return "getter-type:if_range", "request.if_range is %r for %r" % (m, value)
            try:
                r = Response(etag="a") in m      # no Last-Modified: every matcher must answer
                if r not in (True, False, None):
                    return "matcher-answer:if_range", "(resp in request.if_range) is %r for %r" % (r, value)
            except Exception as e:  # noqa
                return "matcher-raises:if_range:" + type(e).__name__, \
                    "(Response(etag='a') in request.if_range) raises %s for %r" % (type(e).__name__, value)
        else:
            if type(m) not in (ETagMatcher, _AnyETag, _NoETag):
                return "getter-type:" + which, "request.%s is %r for %r" % (which, m, value)
            try:
                for p in ("a", value, "", None):
                    if (p in m) not in (True, False):
                        return "matcher-answer:" + which, "(%r in request.%s) is not a bool for %r" % (p, which, value)
            except Exception as e:  # noqa
                return "matcher-raises:%s:%s" % (which, type(e).__name__), \
                    "(tag in request.%s) raises %s for %r" % (which, type(e).__name__, value)
    return None


# =========================================================================== histories on long-lived objects
# The property treats every getter / matcher / Response.etag as a pure function of the current header text.  The
# oracles below therefore use ONE Request, ONE Response and held matcher objects across many different steps and
# compare every answer (a) with the reference computed from the header text current at that step and (b) with the
# answer of a brand-new object built from the same text; read-only steps must leave the observable state unchanged.
GETTERS = {"if_match": "IF_MATCH", "if_none_match": "IF_NONE_MATCH", "if_range": "IF_RANGE"}


def ref_of(items):
    """reference meaning of a header given as items / '*' / None"""
    if items is None or items == "":
        return {"kind": "absent", "value": items}
    if items == "*":
        return {"kind": "star", "value": "*"}
    sep_items = [tuple(x) for x in items]
    return {"kind": "tags", "value": render(sep_items), "all": [t for _, _, t in sep_items],
            "strong": [t for _, w, t in sep_items if not w]}


def ref_answer(ref, which, probe):
    """expected membership; None = the statement does not say (If-Range carrying `*` or a LIST of tags is not an If-Range
    value -- RFC 7233: entity-tag / HTTP-date -- so only 'answers with a bool' is required there)"""
    if ref["kind"] == "absent":
        return which != "if_none_match"
    if which == "if_range" and (ref["kind"] == "star" or len(ref["all"]) != 1):
        return None
    if ref["kind"] == "star":
        return True
    if which == "if_none_match":
        return probe is not None and probe in ref["all"]
    return probe is not None and probe in ref["strong"]


class _Resps:
    """long-lived Response objects, one per probe tag (strong ETag = probe; None = no ETag)"""

    def __init__(self):
        self.d = {}

    def get(self, probe):
        from webob import Response
        if probe not in self.d:
            r = Response()
            if probe is not None:
                r.etag = (probe, True)
            self.d[probe] = r
        return self.d[probe]


def ask(req, which, probe, resps):
    if which == "if_range":
        return bool(resps.get(probe) in req.if_range)
    return probe in getattr(req, which)


def matcher_state(m):
    """observable state of a matcher object (for the immutability check)"""
    from webob.etag import IfRange, IfRangeDate
    if isinstance(m, IfRange):
        return ["IfRange", matcher_state(m.etag)]
    if isinstance(m, IfRangeDate):
        return ["IfRangeDate", repr(m.date)]
    return [type(m).__name__, repr(getattr(m, "etags", None)), sorted(getattr(m, "__dict__", {}))]


def ask_matcher(m, which, probe, resps):
    if which == "if_range":
        return bool(resps.get(probe) in m)
    return probe in m


def oracle_req_history(steps):
    """ONE Request serving membership tests under all three getters, interleaved with environ edits and with tests on
    matcher objects obtained earlier.  steps: ["set", which, items|'*'|''|None, via] | ["test", which, probe] |
    ["hold", which] | ["test-held", index, probe]"""
    from webob import Request
    from webob.etag import AnyETag, NoETag
    req = Request.blank("/")
    resps = _Resps()
    cur = {w: ref_of(None) for w in GETTERS}
    held = []
    try:
        for n, st in enumerate(steps):
            op = st[0]
            if op == "set":
                _, which, items, via = st
                ref = ref_of(items)
                if via == "attr":
                    setattr(req, which, ref["value"])
                elif ref["value"] is None:
                    req.environ.pop("HTTP_" + GETTERS[which], None)
                else:
                    req.environ["HTTP_" + GETTERS[which]] = ref["value"]
                cur[which] = ref
            elif op == "test":
                _, which, probe = st
                want = ref_answer(cur[which], which, probe)
                got = ask(req, which, probe, resps)
                if want is None:
                    want = got if got in (True, False) else None
                if got is not want:
                    fresh = ask(mk_request(**{GETTERS[w]: cur[w]["value"] for w in GETTERS}), which, probe, _Resps())
                    if fresh is want:
                        return ("history:request:differs-from-fresh",
                                "step %d: (%r in request.%s) is %r on a Request that served %d earlier steps, but %r on a new "
                                "Request with the same header %r" % (n, probe, which, got, n, fresh, cur[which]["value"]))
                    return ("history:request:wrong-answer",
                            "step %d: (%r in request.%s) is %r for the header %r" % (n, probe, which, got, cur[which]["value"]))
            elif op == "hold":
                m = getattr(req, st[1])
                held.append([st[1], m, dict(cur[st[1]]), matcher_state(m)])
            elif op == "test-held" and held:
                which, m, ref, state = held[st[1] % len(held)]
                want = ref_answer(ref, which, st[2])
                got = ask_matcher(m, which, st[2], resps)
                if want is None:
                    want = got if got in (True, False) else None
                if got is not want:
                    return ("history:matcher:wrong-answer-after-reuse",
                            "step %d: a matcher obtained from request.%s for %r answers %r for %r after earlier membership "
                            "tests" % (n, which, ref["value"], got, st[2]))
            for which, m, ref, state in held:
                if matcher_state(m) != state:
                    return ("history:matcher:mutated-by-membership-test",
                            "step %d (%r): the matcher obtained from request.%s for %r changed from %r to %r" % (
                                n, st, which, ref["value"], state, matcher_state(m)))
        if AnyETag.__dict__ or NoETag.__dict__:
            return "history:matcher:singleton-mutated", "AnyETag/NoETag carry state: %r %r" % (AnyETag.__dict__, NoETag.__dict__)
    except Exception as e:  # noqa
        return "history:request:raises:" + type(e).__name__, "Request history raises %s: %s" % (type(e).__name__, e)
    return None


def oracle_module_order(items, order, shared):
    """The same header value under the three getters in a given order (first use of that value in the process when the
    tags are fresh): no getter's answer may depend on which getter saw the value first."""
    ref = ref_of(items)
    resps = _Resps()
    probes = list(dict.fromkeys(ref["all"] + ["zz", None]))
    try:
        req = mk_request() if shared else None
        for which in order:
            r = req if shared else mk_request()
            wref = ref_of([list(items[0])]) if which == "if_range" else ref     # If-Range carries ONE tag
            r.environ["HTTP_" + GETTERS[which]] = wref["value"]
            for p in probes:
                got, want = ask(r, which, p, resps), ref_answer(wref, which, p)
                if got is not want:
                    return ("history:module-order",
                            "header %r evaluated in the order %s: (%r in request.%s) is %r, expected %r" % (
                                ref["value"], ">".join(order), p, which, got, want))
    except Exception as e:  # noqa
        return "history:module-order:raises:" + type(e).__name__, "%s: %s" % (type(e).__name__, e)
    return None


def oracle_resp_history(steps):
    """ONE Response whose etag is set / cleared / read repeatedly (strong <-> weak flips, different values) and echoed
    through ONE Request.  steps: ["set", v, strong|None, "str"|"pair"] | ["none"] | ["read"] | ["echo", which, sep, other]"""
    from webob import Response, Request
    resp = Response()
    req = Request.blank("/")
    cur = None          # (v, strong) or None
    try:
        for n, st in enumerate(steps):
            op = st[0]
            if op == "set":
                _, v, strong, how = st
                resp.etag = v if how == "str" else (v, strong)
                cur = (v, True if how == "str" else strong)
            elif op == "none":
                resp.etag = None
                cur = None
            elif op == "read":
                for _ in range(2):        # reading twice: reads are not allowed to change anything
                    got = [resp.headers.get("ETag"), resp.etag, resp.etag_strong, len(resp.headers.getall("ETag"))]
                    if cur is None:
                        want = [None, None, None, 0]
                    else:
                        want = [render_tag(not cur[1], cur[0]), cur[0], cur[0] if cur[1] else None, 1]
                    if got != want:
                        fresh = Response()
                        if cur is not None:
                            fresh.etag = cur
                        fr = [fresh.headers.get("ETag"), fresh.etag, fresh.etag_strong, len(fresh.headers.getall("ETag"))]
                        key = "history:response:differs-from-fresh" if fr == want else "history:response:wrong-state"
                        return key, "step %d: after %r the Response shows [raw, etag, etag_strong, #headers] = %r, expected %r " \
                                    "(a new Response gives %r)" % (n, steps[:n], got, want, fr)
            elif op == "echo" and cur is not None:
                # the echoed value goes into all three headers of the ONE Request and is evaluated under all three getters,
                # starting with the step's own getter (so the order rotates): self-contained w.r.t. value-keyed caches
                _, first, sep, other = st
                raw = resp.headers.get("ETag")
                names = list(GETTERS)
                for which in names[names.index(first):] + names[:names.index(first)]:
                    value = raw if which == "if_range" or other is None else render_tag(False, other) + sep + raw
                    req.environ["HTTP_" + GETTERS[which]] = value
                    if which == "if_range":
                        got, want = bool(resp in req.if_range), cur[1]
                    elif which == "if_none_match":
                        got, want = resp.etag in req.if_none_match, True
                    else:
                        got, want = resp.etag in req.if_match, cur[1] or other == cur[0]
                    if got is not want:
                        return ("history:response:echo",
                                "step %d: ETag %s (set after %d earlier steps) echoed as %s: %s -> match is %r, expected %r" % (
                                    n, raw, n, which, value, got, want))
    except Exception as e:  # noqa
        return "history:response:raises:" + type(e).__name__, "Response history raises %s: %s" % (type(e).__name__, e)
    return None


HIST_TAGS = ["a", "b", "a\\", ",", "x y", "", "W/a", "*"]


def r_hist_value(rng):
    k = rng.random()
    if k < 0.12:
        return rng.choice([None, "", "*"])
    n = rng.randrange(1, 4)
    return [[rng.choice(SEPS_RFC), rng.random() < 0.45, rng.choice(HIST_TAGS)] for _ in range(n)]


def r_req_history(rng, length):
    pool = [r_hist_value(rng) for _ in range(4)] + [None, "*"]
    steps = []
    for _ in range(length):
        k = rng.random()
        which = rng.choice(list(GETTERS))
        probe = rng.choice(HIST_TAGS + [None, "zz"])
        if k < 0.3:
            v = rng.choice(pool)
            if which == "if_range" and rng.random() < 0.7:       # If-Range carries ONE entity-tag
                v = [["", rng.random() < 0.4, rng.choice(HIST_TAGS)]]
            steps.append(["set", which, v, rng.choice(["environ", "environ", "attr"])])
        elif k < 0.75:
            steps.append(["test", which, probe])
        elif k < 0.85:
            steps.append(["hold", which])
        else:
            steps.append(["test-held", rng.randrange(8), probe])
    return steps


def r_resp_history(rng, length):
    steps = []
    vals = ["a", "b", "a\\", ",", "x y", "", "*", "\xe9"]
    for _ in range(length):
        k = rng.random()
        if k < 0.35:
            how = rng.choice(["str", "pair", "pair"])
            steps.append(["set", rng.choice(vals), None if how == "str" else rng.random() < 0.5, how])
        elif k < 0.42:
            steps.append(["none"])
        elif k < 0.7:
            steps.append(["read"])
        else:
            steps.append(["echo", rng.choice(list(GETTERS)), rng.choice(SEPS_RFC), rng.choice([None, "a", "b", "zz"])])
    return steps


# =========================================================================== argument shapes of the request-side setters
def oracle_setter_shapes(tags, which, form):
    """request.<which> assigned a matcher OBJECT (the setter stores str(val)), removed with None / del; If-Range assigned
    an IfRange object.  tags are quote-free, so the stored text is an entity-tag list and membership must be exact."""
    from webob.etag import ETagMatcher, AnyETag, NoETag, IfRange
    try:
        req = mk_request()
        absent = which != "if_none_match"            # what an absent header answers
        if form == "matcher":
            obj = ETagMatcher(list(tags))
            setattr(req, which, IfRange(obj) if which == "if_range" else obj)
            text = req.environ.get("HTTP_" + GETTERS[which])
            if text != ", ".join('"%s"' % t for t in tags):
                return "setter-shapes:text", "request.%s = ETagMatcher(%r) stored %r" % (which, tags, text)
            ref = {"kind": "tags", "all": list(tags), "strong": list(tags)}
            if which == "if_range" and len(tags) != 1:
                ref = None       # If-Range carries one tag; several is outside the statement (no crash is all we ask)
        elif form == "any":
            setattr(req, which, IfRange(AnyETag) if which == "if_range" else AnyETag)
            ref = {"kind": "star"} if which != "if_range" else {"kind": "absent"}     # str(IfRange(AnyETag)) == ""
        elif form == "no":
            setattr(req, which, IfRange(NoETag) if which == "if_range" else NoETag)
            ref = {"kind": "absent"}
        elif form == "none-after-value":
            req.environ["HTTP_" + GETTERS[which]] = '"x"'
            setattr(req, which, None)
            ref = {"kind": "absent"}
        else:  # del-after-value
            req.environ["HTTP_" + GETTERS[which]] = '"x"'
            delattr(req, which)
            ref = {"kind": "absent"}
        resps = _Resps()
        for p in list(tags) + ["x", "zz", None]:
            got = ask(req, which, p, resps)
            if ref is not None and ref_answer(ref, which, p) is not None and got is not ref_answer(ref, which, p):
                return ("setter-shapes:" + form, "after request.%s = <%s %r>: (%r in request.%s) is %r, header text %r" % (
                    which, form, tags, p, which, got, req.environ.get("HTTP_" + GETTERS[which])))
    except Exception as e:  # noqa
        return "setter-shapes:raises:" + type(e).__name__, "request.%s = <%s %r>: %s: %s" % (which, form, tags, type(e).__name__, e)
    return None


def oracle_md5_etag(body_hex, cfg):
    """Response.md5_etag(): the generated value is quote-free, so the statement applies to it."""
    try:
        resp = new_response(cfg)
        resp.md5_etag(bytes.fromhex(body_hex))
        v, raw = resp.etag, resp.headers.get("ETag")
        if not isinstance(v, str) or '"' in v or raw != '"%s"' % v or resp.etag_strong != v or \
                len(resp.headers.getall("ETag")) != 1:
            return "etag-response:md5", "md5_etag: header %r, etag %r, etag_strong %r" % (raw, v, resp.etag_strong)
        req = mk_request(IF_NONE_MATCH='"zz",' + raw, IF_MATCH=raw + ' ,W/"zz"', IF_RANGE=raw)
        if not (v in req.if_none_match and v in req.if_match and resp in req.if_range):
            return "etag-response:md5-echo", "md5_etag %s does not match when echoed" % raw
    except Exception as e:  # noqa
        return "etag-response:md5:raises:" + type(e).__name__, "md5_etag: %s: %s" % (type(e).__name__, e)
    return None


# =========================================================================== outside the model's value domains
OUTSIDE_ETAG_VALUES = [
    ("quote", 'a"b'), ("quote", '"foo"'), ("quote", 'W/"foo"'), ("quote", '"'), ("quote", '\\"'), ("quote", 'a\\"b'),
    ("quote", ' "x"'), ("quote", '"a", "b"'), ("quote", 'W/"'), ("quote", '""'), ("quote", '"a'), ("quote", 'a"'),
    ("crlf", "a\nb"), ("crlf", "a\rb"), ("crlf", "\n"), ("crlf", 'a"\r\nX-Injected: 1'), ("crlf", "a\r\nSet-Cookie: x=1"),
    ("type", b"abc"), ("type", 5), ("type", ["a", True]), ("type", ("a", True, 1)), ("type", (b"a", True)), ("type", ()),
    ("type", (None, True)), ("type", 1.5), ("type", {"a": 1}),
]


def oracle_etag_outside(index, pair, cfg):
    """Values the statement does not cover (double quotes, CR/LF, non-str): what stays meaningful is checked -- the
    documented refusals (ValueError for CR/LF; TypeError/ValueError for non-str shapes) leave no damaged header behind,
    a value with quotes is stored as exactly one header without CR/LF and the two read views stay coherent."""
    kind, v = OUTSIDE_ETAG_VALUES[index]
    if pair is not None and isinstance(v, str):
        v = (v, pair)
    try:
        resp = new_response(cfg)
        resp.etag = ("old", True)
        try:
            resp.etag = v
            raised = None
        except Exception as e:  # noqa
            raised = e
        hs = resp.headers.getall("ETag")
        allh = "".join(k + ": " + x for k, x in resp.headerlist)
        if "\n" in allh or "\r" in allh or any("injected" in k.lower() or k.lower() == "set-cookie" for k, _ in resp.headerlist):
            return "etag-outside:header-injection", "Response.etag = %r left CR/LF or a foreign header: %r" % (v, resp.headerlist)
        if kind == "quote":
            if raised is not None:
                return "etag-outside:quote-raises:" + type(raised).__name__, "Response.etag = %r raises %r" % (v, raised)
            if len(hs) != 1 or not isinstance(resp.etag, str) or resp.etag_strong not in (None, resp.etag):
                return "etag-outside:quote-incoherent", "Response.etag = %r: headers %r, etag %r, etag_strong %r" % (
                    v, hs, resp.etag, resp.etag_strong)
        elif kind == "crlf":
            if not isinstance(raised, ValueError):
                return "etag-outside:crlf-not-refused", "Response.etag = %r: %r, headers %r" % (v, raised, hs)
            if hs not in ([], ['"old"']):
                return "etag-outside:crlf-damaged-header", "Response.etag = %r refused but headers are %r" % (v, hs)
        else:
            if not isinstance(raised, (TypeError, ValueError, AttributeError)):
                return "etag-outside:type-not-refused", "Response.etag = %r: %r, headers now %r" % (v, raised, hs)
            if hs not in ([], ['"old"']):
                return "etag-outside:type-damaged-header", "Response.etag = %r refused but headers are %r" % (v, hs)
    except Exception as e:  # noqa
        return "etag-outside:raises:" + type(e).__name__, "Response.etag = %r: %s: %s" % (v, type(e).__name__, e)
    return None


def oracle_header_outside(which, form):
    """Header values that are not str (PEP 3333 requires native strings): the getter may only refuse with TypeError,
    (AttributeError from IfRange.parse), never return a non-matcher or damage the environ (an asctime date is a str: it belongs to the if-range-date oracle)."""
    from webob.etag import ETagMatcher, IfRange, IfRangeDate, _AnyETag, _NoETag
    key = "HTTP_" + GETTERS[which]
    value = {"bytes": b'"a"', "int": 5, "list": ['"a"'], "asctime": "Fri Nov  9 01:08:47 2001", "false": False, "zero": 0}[form]
    try:
        req = mk_request()
        req.environ[key] = value
        try:
            m = getattr(req, which)
        except (TypeError, AttributeError):      # not a str: refused (AttributeError: value.endswith in IfRange.parse)
            m = None
        except Exception as e:  # noqa
            return "header-outside:raises:" + type(e).__name__, "request.%s with environ value %r raises %r" % (which, value, e)
        if req.environ[key] is not value:
            return "header-outside:environ-changed", "reading request.%s changed the environ value %r" % (which, value)
        if m is not None and type(m) not in (ETagMatcher, _AnyETag, _NoETag, IfRange, IfRangeDate):
            return "header-outside:not-a-matcher", "request.%s is %r for the environ value %r" % (which, m, value)
    except Exception as e:  # noqa
        return "header-outside:raises:" + type(e).__name__, "request.%s with %r: %s: %s" % (which, value, type(e).__name__, e)
    return None


def run_getters_seq(seq, flip=0):
    """ONE Request; per step both headers are set to the value (None: removed), the two getters are evaluated in
    alternating order and probed.  Returns the per-step observations in the format of impl_getters."""
    from webob import Request
    req = Request.blank("/")
    out = []
    for n, (v, probes) in enumerate(seq):
        for k in ("HTTP_IF_MATCH", "HTTP_IF_NONE_MATCH"):
            if v is None:
                req.environ.pop(k, None)
            else:
                req.environ[k] = v
        if (n + flip) % 2:
            inm = req.if_none_match
            r_inm = [p in inm for p in probes]
            im = req.if_match
            r_im = [p in im for p in probes]
        else:
            im = req.if_match
            r_im = [p in im for p in probes]
            inm = req.if_none_match
            r_inm = [p in inm for p in probes]
        out.append([v_matcher(im), r_im, v_matcher(inm), r_inm])
    return out


def oracle_getters_seq(seq, flip=0):
    got = run_getters_seq(seq, flip)
    for n, (v, probes) in enumerate(seq):
        fresh = impl_getters(v, probes)
        if got[n] != fresh:
            return ("history:request:differs-from-fresh",
                    "step %d: a Request reused for %d header values answers %r for If-Match/If-None-Match %r (probes %r); a "
                    "new Request answers %r" % (n, n, got[n], v, probes, fresh))
    return None


def run_set_etag_seq(args):
    """ONE Response; Response.etag assigned repeatedly; per-step observation in the format of impl_set_etag."""
    from webob import Response
    resp = Response()
    out = []
    for a in args:
        try:
            resp.etag = a[1] if a[0] == "str" else (a[1], a[2])
        except ValueError:
            out.append(Err("ValueError"))
            continue
        out.append([resp.headers.get("ETag"), resp.etag, resp.etag_strong])
    return out


def oracle_set_etag_seq(args):
    got = run_set_etag_seq(args)
    for n, a in enumerate(args):
        fresh = impl_set_etag(tuple(a))
        if got[n] != fresh:
            return ("history:response:differs-from-fresh",
                    "step %d: Response.etag = %r on a Response assigned %d times before shows %r; a new Response shows %r" % (
                        n, a, n, got[n], fresh))
    return None


def oracle_case(case):
    """Dispatch on a stored case (replays, correspondence disagreements)."""
    k = case.get("kind")
    if k == "list":
        items = [tuple(x) for x in case["items"]]
        return oracle_list(items, case.get("lead", ""), case.get("trail", ""), style=case.get("style", "environ"))
    if k == "star-absent":
        return oracle_star_absent()
    if k == "etag":
        return oracle_etag(case["v"], case["strong"], case["how"], tuple(case.get("neighbours", ("x", "y"))),
                           case.get("sep", ", "), case.get("cfg", "plain"), case.get("style", "environ"))
    if k == "if-range-tag":
        return oracle_if_range_tag(case["t"], case["weak"], [tuple(x) for x in case["resps"]], case.get("style", "environ"))
    if k == "if-range-date":
        return oracle_if_range_date(case["d"], case["lms"], case.get("how", "header"), case.get("form", "imf"),
                                    case.get("style", "environ"))
    if k == "if-range-near-date":
        return oracle_if_range_near_date(case["d"], case["variant"], case.get("style", "environ"))
    if k == "malformed":
        return oracle_malformed(case["value"], case.get("style", "environ"))
    if k == "req-history":
        return oracle_req_history(case["steps"])
    if k == "module-order":
        return oracle_module_order(case["items"], case["order"], case["shared"])
    if k == "resp-history":
        return oracle_resp_history(case["steps"])
    if k == "setter-shapes":
        return oracle_setter_shapes(case["tags"], case["which"], case["form"])
    if k == "md5-etag":
        return oracle_md5_etag(case["body"], case["cfg"])
    if k == "etag-outside":
        return oracle_etag_outside(case["index"], case["pair"], case["cfg"])
    if k == "header-outside":
        return oracle_header_outside(case["which"], case["form"])
    if k == "getters-seq":
        return oracle_getters_seq([tuple(x) for x in case["seq"]], case.get("flip", 0))
    if k == "set-etag-seq":
        return oracle_set_etag_seq([tuple(x) for x in case["args"]])
    if k == "str-roundtrip":
        return oracle_str_roundtrip(case["matcher"], case["probes"])
    if k == "ser-parse":
        return oracle_ser_parse(tuple(case["arg"]))
    return None


# =========================================================================== the written form of a matcher (Model/C11_str.v)
IMPORTS_STR = IMPORTS + ["Webob.Model.C11_str"]


def mk_matcher(spec):
    from webob.etag import ETagMatcher, AnyETag, NoETag
    return AnyETag if spec == "any" else NoETag if spec == "no" else ETagMatcher(list(spec))


def cmatcher(spec):
    return "MAny" if spec == "any" else "MNo" if spec == "no" else "(MTags %s)" % clist(cstr(t) for t in spec)


def impl_str_roundtrip(spec, probes):
    """str(m); ETagMatcher.parse(str(m)) in both modes; req.if_match = m / req.if_none_match = m, then what is stored,
    what the getters answer, membership of the probes; membership in m itself."""
    from webob.etag import ETagMatcher
    m = mk_matcher(spec)
    text = str(m)
    req = mk_request()
    req.if_match = m
    req.if_none_match = m
    h, h2 = req.environ.get("HTTP_IF_MATCH"), req.environ.get("HTTP_IF_NONE_MATCH")
    if h != h2:
        return Err("setters-disagree")
    im, inm = req.if_match, req.if_none_match
    return [text, v_matcher(ETagMatcher.parse(text, strong=True)), v_matcher(ETagMatcher.parse(text, strong=False)), h,
            v_matcher(im), [p in im for p in probes], v_matcher(inm), [p in inm for p in probes], [p in m for p in probes]]


def oracle_str_roundtrip(spec, probes):
    """The statement on the real code, for quote-free tags: ETagMatcher.parse(str(m)) has exactly m's tags in m's order
    (both modes); `p in parse(str(m))` iff `p in m`; after req.if_none_match = m membership is m's; after req.if_match = m
    too, unless m is written as the empty string (ETagMatcher([]) / NoETag: stated exception, C11_im_set_get_empty_refuted)."""
    from webob.etag import ETagMatcher
    if isinstance(spec, list) and any('"' in t for t in spec):
        return None
    try:
        m = mk_matcher(spec)
        text = str(m)
        for strong in (True, False):
            back = ETagMatcher.parse(text, strong=strong)
            if isinstance(spec, list) and (type(back) is not ETagMatcher or list(back.etags) != list(spec)):
                return ("str-roundtrip:tags", "ETagMatcher.parse(str(ETagMatcher(%r)), strong=%r) = %r (text %r)" % (
                    spec, strong, v_matcher(back), text))
            for p in probes:
                if (p in back) is not (p in m):
                    return ("str-roundtrip:membership", "(%r in ETagMatcher.parse(str(m), strong=%r)) is %r but (%r in m) is %r "
                            "for m = %r (text %r)" % (p, strong, p in back, p, p in m, spec, text))
        req = mk_request()
        req.if_match = m
        req.if_none_match = m
        for which in ("if_none_match", "if_match"):
            if which == "if_match" and text == "":
                continue
            got = getattr(req, which)
            for p in probes:
                if (p in got) is not (p in m):
                    return ("str-roundtrip:" + which, "after request.%s = %r: (%r in request.%s) is %r but (%r in m) is %r" % (
                        which, spec, p, which, p in got, p, p in m))
    except Exception as e:  # noqa
        return "str-roundtrip:raises:" + type(e).__name__, "matcher %r: %s: %s" % (spec, type(e).__name__, e)
    return None


def impl_ser_parse(arg):
    from webob.descriptors import serialize_etag_response, parse_etag_response
    text = serialize_etag_response(arg[1] if arg[0] == "str" else (arg[1], arg[2]))
    return [text, parse_etag_response(text), parse_etag_response(text, strong=True)]


def oracle_ser_parse(arg):
    """serialize_etag_response -> parse_etag_response = id for values without DQUOTE / CR / LF; W/ iff not strong"""
    from webob.descriptors import serialize_etag_response, parse_etag_response
    v = arg[1]
    if '"' in v or "\n" in v or "\r" in v:
        return None
    strong = True if arg[0] == "str" else bool(arg[2])
    try:
        text = serialize_etag_response(v if arg[0] == "str" else (v, arg[2]))
        if text != ("" if strong else "W/") + '"' + v + '"':
            return "ser-parse:text", "serialize_etag_response(%r) = %r" % (arg[1:], text)
        if parse_etag_response(text) != v:
            return "ser-parse:value", "parse_etag_response(serialize_etag_response(%r)) = %r" % (arg[1:], parse_etag_response(text))
        if parse_etag_response(text, strong=True) != (v if strong else None):
            return "ser-parse:strong", "parse_etag_response(%r, strong=True) = %r" % (text, parse_etag_response(text, strong=True))
    except Exception as e:  # noqa
        return "ser-parse:raises:" + type(e).__name__, "%r: %s: %s" % (arg, type(e).__name__, e)
    return None


STR_TAG_ALPHA = ["a", "b", ",", " ", "W/", "\\", "*", "\xe9", "\xff", "\x80", "~", "!", "#", ", ", "\t", "w/", "/"]
STR_TAG_WILD = STR_TAG_ALPHA + ['"', '"', "\n", "\r", "\x1f", "\x85", "\u3000", "\u0100", '\\"', '", "', 'W/"']


def r_str_tags(rng, wild=False):
    """0..6 tags; legal ones (etagc + commas/spaces/W/ inside, the empty tag, STAR) or, wild, with DQUOTE / LF / controls"""
    alpha = STR_TAG_WILD if wild else STR_TAG_ALPHA
    return ["".join(rng.choice(alpha) for _ in range(rng.randrange(0, 4))) for _ in range(rng.randrange(0, 7))]


# =========================================================================== generators
MAL_ALPHA = ['"', '"', "\\", "W", "/", ",", " ", "\t", "\n", "a", "b", "\xe9", "\x1f", "\x85", "\xa0", "*", "w", ";", "\r",
             "\u3000", "\u2003", "\u0100"]
SEPS_WILD = SEPS_RFC + ["", " ", "\t", ";", " ; ", "\n", "\x85", "\xa0", "\u3000", "\x0b", "\x1c", ", W/", "/", "W/", ",w/", "\r\n "]


def r_tag(rng, alpha=None, maxlen=3):
    alpha = alpha or TAG_ALPHA + ["b", "W", "/", "*", "\t", "\\", "\\"]
    return "".join(rng.choice(alpha) for _ in range(rng.randrange(0, maxlen + 1)))


def r_items(rng, seps, maxn=4, alpha=None):
    return [(rng.choice(seps), rng.random() < 0.35, r_tag(rng, alpha)) for _ in range(rng.randrange(1, maxn + 1))]


def r_malformed(rng, maxlen=8):
    return "".join(rng.choice(MAL_ALPHA) for _ in range(rng.randrange(0, maxlen + 1)))


def mutate(s, rng):
    if not s:
        return rng.choice(MAL_ALPHA)
    i = rng.randrange(len(s))
    k = rng.randrange(3)
    if k == 0:
        return s[:i] + s[i + 1:]
    if k == 1:
        return s[:i] + rng.choice(MAL_ALPHA) + s[i:]
    return s[:i] + rng.choice(MAL_ALPHA) + s[i + 1:]


def r_header_value(rng):
    """A header value for the correspondence: mostly list-shaped, with wild separators and near misses."""
    k = rng.random()
    if k < 0.45:
        it = r_items(rng, SEPS_RFC)
        return render(it, rng.choice(["", "", " ", ",", ", "]), rng.choice(["", "", " ", ",", " ,"]))
    if k < 0.7:
        return render(r_items(rng, SEPS_WILD), rng.choice(["", " ", "\n", "W/", "x"]), rng.choice(["", " ", '"', "\\"]))
    if k < 0.85:
        return mutate(render(r_items(rng, SEPS_RFC)), rng)
    return r_malformed(rng)


MONTHS = ["Jan", "Feb", "Mar", "Apr", "May", "Jun", "Jul", "Aug", "Sep", "Oct", "Nov", "Dec", "Foo"]


def r_datey(rng):
    """date-like If-Range values, including unparseable and out-of-range ones"""
    k = rng.random()
    if k < 0.4:
        return fmt_date(rng.choice([0, 1, 86399, 86400, 951782400, 1005268127, 2 ** 31 - 1, 2 ** 31, 4102444800,
                                    253402300799, rng.randrange(0, 4 * 10 ** 9)]))
    if k < 0.8:
        return "%s, %s %s %s %02d:%02d:%02d%s" % (
            rng.choice(["Mon", "Fri", "Xxx", ""]), rng.choice(["01", "1", "31", "32", "00", "99"]), rng.choice(MONTHS),
            rng.choice(["1970", "2001", "99", "0", "0000", "1", "9999", "10000", "99999", "1969", "1900", "2038",
                        "999999999", "99999999999999999999"]),
            rng.randrange(0, 25), rng.randrange(0, 61), rng.randrange(0, 62),
            rng.choice([" GMT", " GMT", " GMT", " +0000 GMT", " -2359 GMT", " +9999 GMT", "GMT", " gmt", " UTC", ""]))
    return r_malformed(rng, 5) + " GMT"


# =========================================================================== the check
def _corr(ctx, name, fn, cases, in_type):
    """run one correspondence; disagreements -> property oracle on the case -> VIOLATION or broken tie"""
    bad = ctx.corr(name, IMPORTS, fn, cases, in_type=in_type)
    for i in bad[:8]:
        case = cases[i][2]
        r = None
        for oc in case.get("oracle", []):
            r = oracle_case(oc)
            if r:
                ctx.fail(r[0], r[1], oc, True, "corr")
                break
        if not r:
            ctx.broken.append("correspondence %s: model and implementation disagree on %s (implementation: %r)" % (
                name, json.dumps({k: v for k, v in case.items() if k != "oracle"}), cases[i][1]))
    return bad


def list_case(items, lead="", trail="", style="environ"):
    return {"kind": "list", "items": [list(x) for x in items], "lead": lead, "trail": trail, "style": style}


def corr_values(ctx, rng, n):
    """header values for the scanner / getter correspondences, with the oracle case when list-shaped"""
    out = [(v, []) for v in ["", "*", '"', '""', '"a"', 'W/"a"', 'W/"a', '"a","b"', '"a" ,"b"', '"a\\", "b"', '"a\\"',
                             ' "a"', ',"a"', '\n"a"', '"a"\n"b"', '"a\nb"', 'w/"a"', 'W/ "a"', 'WW/"a"', '"a""b"',
                             '"a" "b"', '"\\"', '"\\\\"', '"\\""', '\\"a"', '"a"W/"b"', "**", " *", "a", "a, b",
                             '"a\\" , W/"b\\"', '"\u3000"\u3000"b"', '"a"\x85"b"', '"a"\x1c"b"', '"a";"b"']]
    for _ in range(n):
        k = rng.random()
        if k < 0.4:
            items = r_items(rng, SEPS_RFC)
            lead, trail = rng.choice(["", "", " ", ",", ", "]), rng.choice(["", "", " ", ",", " ,"])
            out.append((render(items, lead, trail), [list_case(items, lead, trail)]))
        else:
            out.append((r_header_value(rng), []))
    return out


# ---- traceability: what is modelled by hand / regenerated / only exercised by the oracle
MODELLED = [
    # etag.py: getters and matchers (Model: etag_getter, if_match, if_none_match, contains, matcher_parse)
    "webob.etag:etag_property",                    # fget: environ.get(key); `not value` -> default; else ETagMatcher.parse; fset: None -> pop, else environ[key] = str(val) (etag_fset)
    "webob.request:BaseRequest.if_match",          # = etag_property("HTTP_IF_MATCH", AnyETag, strong=True).fget
    "webob.request:BaseRequest.if_none_match",     # = etag_property("HTTP_IF_NONE_MATCH", NoETag, strong=False).fget
    "webob.etag:_AnyETag.__contains__",
    "webob.etag:_NoETag.__contains__",
    "webob.etag:ETagMatcher.__contains__",
    "webob.etag:ETagMatcher.parse",
    # etag.py: If-Range (Model: if_range_parse, if_range_contains)
    "webob.etag:IfRange.parse",
    "webob.etag:IfRange.__contains__",
    "webob.etag:IfRangeDate.__contains__",
    "webob.request:BaseRequest.if_range",          # = converter(environ_getter("HTTP_IF_RANGE", None), IfRange.parse, ...).fget
    "webob.descriptors:environ_getter",            # fget with default None: the `value : option str` of if_range_parse
    # descriptors.py / response.py: the response ETag (Model: parse/serialize_etag_response, set_etag, get_etag, get_etag_strong)
    "webob.descriptors:parse_etag_response",
    "webob.descriptors:serialize_etag_response",
    "webob.descriptors:converter",                 # fget = parse(hget(r)); fset = hset(r, serialize(val)) -- Response.etag
    "webob.descriptors:header_getter",             # fget first matching header; fset: delete, refuse CR/LF, append -- _etag_raw
    "webob.response:Response.etag",
    "webob.response:Response.etag_strong",
    # etag.py: the written form (Model/C11_str.v: matcher_str, etag_fset)
    "webob.etag:ETagMatcher.__str__",              # ", ".join('"%s"' % t): no W/, no escaping
    "webob.etag:_AnyETag.__str__",                 # "*"
    "webob.etag:_NoETag.__str__",                  # ""
]
REGENERATED = [
    "webob.etag:_rx_etag_list",                    # the pattern ETagMatcher.parse runs findall with -> lst_pre / lst_esc / lst_excl
    "webob.descriptors:_rx_etag",                  # the pattern parse/serialize_etag_response run match with -> rsp_*
    "webob.etag:_rx_asctime",                      # the asctime-date shape IfRange.parse full-matches -> asctime_rx
]
ORACLE_ONLY = [
    "webob.datetime_utils:parse_date",             # Section variable in the model; results recorded and replayed
    "webob.datetime_utils:serialize_date",         # Response.last_modified = datetime (if-range-date oracle, how="attr")
    "webob.response:Response.last_modified",
    "webob.descriptors:serialize_if_range",        # request.if_range = value (history-request, via="attr")
    "webob.request:BaseRequest.blank",             # headers={...} -> HTTP_* environ keys
    "webob.response:Response.__init__",            # Response(etag=...)
]


def run(ctx):
    ctx.modelled(MODELLED)
    ctx.extra["regenerated_from_source"] = REGENERATED
    ctx.extra["oracle_only"] = ORACLE_ONLY
    try:
        stop = gen(ctx)
    except Exception as e:  # noqa
        stop = "C11 translator failed (fail-closed): %s: %s" % (type(e).__name__, e)
    if stop:
        ctx.broken.append(stop)
    ctx.build(["Model/C11_etag.vo", "Props/C11.vo"])
    rng = ctx.sub_rng("corr")
    n = ctx.scale(450, 6000)

    # ---------------------------------------------------------------- correspondence
    def stage(name, fn):
        """one stage of the check: a failure of the machinery in it is recorded, the other stages still run"""
        try:
            fn()
        except Stop as e:
            ctx.note("correspondence %s skipped: %s" % (name, e))
        except Exception:  # noqa
            import traceback
            ctx.broken.append("stage %s could not be run: %s" % (name, traceback.format_exc()[-600:]))

    r3 = ctx.sub_rng("corr-etag")
    def corr_scan():
        # 1. the scanner: findall + match of both live patterns
        vals = corr_values(ctx, rng, n)
        cases = []
        for which in ("lst", "rsp"):
            for v, oc in vals:
                cases.append((cpair(cbool(which == "lst"), cstr(v)), impl_scan(which, v),
                              {"kind": "scan", "pattern": which, "value": v, "oracle": oc}))
        _corr(ctx, "scan", "(fun c : bool * str => let g := if fst c then lst_cfg else rsp_cfg in "
                           "VList [obs_findall g (snd c); obs_match g (snd c)])", cases, "(bool * str)")

    stage('scan', corr_scan)

    def corr_getters():
        # 2. request.if_match / request.if_none_match + membership
        vals = corr_values(ctx, rng, n)
        cases = []
        for v, oc in [(None, [])] + vals:
            probes = [None, "", "a", "b", "*"] + ([t for _, _, t in oc[0]["items"]] if oc else [])
            if v:
                probes += [v, v[1:-1], v[:-1]]
            style = REQ_STYLES[len(cases) % len(REQ_STYLES)]
            cases.append((cpair(costr(v), clist(costr(p) for p in probes)), impl_getters(v, probes, style),
                          {"kind": "getters", "value": v, "probes": probes, "style": style,
                           "oracle": [dict(o, style=style) for o in oc]}))
        _corr(ctx, "getters", "(fun c : option str * list (option str) => obs_getters (fst c) (snd c))", cases, "(option str * list (option str))")

    stage('getters', corr_getters)

    def corr_set_etag():
        # 3. Response.etag = v / (v, strong)
        args = [("str", v) for v in ["", "a", '"a"', 'W/"a"', 'a"b', "a\\", "a\nb", "a\rb", ' "a"', 'W/"a', "*", '"a', ',"a"',
                                     '"a" x', '"a\\"', "\xe9", "Ā"]]
        args += [("pair", v, st) for v in ["", "a", '"a"', 'W/"a"', 'a"b', "a\\", "a\nb", '\\"', "\\\\"] for st in (True, False)]
        for _ in range(n):
            v = r_tag(r3, TAG_ALPHA + ['"', "W", "/", "\n", "\r", "\\", "\t", "b"], 5) if r3.random() < 0.7 else r_header_value(r3)
            args.append(("str", v) if r3.random() < 0.5 else ("pair", v, r3.random() < 0.5))
        cases = []
        for a in args:
            oc = []
            if '"' not in a[1] and "\n" not in a[1] and "\r" not in a[1]:
                oc = [{"kind": "etag", "v": a[1], "strong": None if a[0] == "str" else a[2], "how": a[0]}]
            cfg = RESP_CFGS[len(cases) % len(RESP_CFGS)]
            cases.append((carg(a), impl_set_etag(a, cfg), {"kind": "set-etag", "arg": list(a), "cfg": cfg,
                                                            "oracle": [dict(o, cfg=cfg) for o in oc]}))
        _corr(ctx, "set-etag", "obs_set_etag", cases, "etag_arg")

    stage('set-etag', corr_set_etag)

    def corr_raw_etag():
        # 4. raw ETag headers (not necessarily written by the setter)
        hs = [None, ""] + [v for v, _ in corr_values(ctx, r3, n)]
        cases = [(costr(h), impl_raw_etag(h), {"kind": "raw-etag", "header": h}) for h in hs]
        _corr(ctx, "raw-etag", "obs_raw_etag", cases, "(option str)")

    stage('raw-etag', corr_raw_etag)

    def _corr_str(name, fn, cases, in_type):
        bad = ctx.corr(name, IMPORTS_STR, fn, cases, in_type=in_type)
        for i in bad[:8]:
            case = cases[i][2]
            r = oracle_case(case)
            if r:
                ctx.fail(r[0], r[1], case, True, "corr")
            else:
                ctx.broken.append("correspondence %s: model and implementation disagree on %s (implementation: %r)" % (
                    name, json.dumps(case), cases[i][1]))
        return bad

    def corr_str_roundtrip():
        # 4b. str(matcher) -> ETagMatcher.parse, and request.if_match / if_none_match = matcher -> getter
        r4 = ctx.sub_rng("corr-str")
        specs = ["any", "no", [], [""], ["*"], ["a"], ["a", "b"], ["a, b"], ["a,b", " "], ["W/"], ['W/"a'], ["\\"], ["a\\", "b"],
                 ["\xe9", "\xff\x80"], ["", ""], ["*", "*"], ['a"b'], ['"'], ['", "'], ["a\nb"], ["a", "a"], ["\\", "\\\\"],
                 ["a", "", "b", "W/x", "*", ", "], ['\\"'], ["W/", "a"], [" "], [","], [", "], ["\t"]]
        for i in range(n):
            specs.append(r_str_tags(r4, wild=(i % 5 == 4)))
        cases = []
        for spec in specs:
            tags = spec if isinstance(spec, list) else []
            probes = [None, "", "a", "*", "x"] + list(tags[:6])
            if tags:
                probes += ['"%s"' % tags[0], tags[0][:-1], tags[0] + ", ", ", ".join(tags[:2])]
            cases.append((cpair(cmatcher(spec), clist(costr(p) for p in probes)), impl_str_roundtrip(spec, probes),
                          {"kind": "str-roundtrip", "matcher": spec, "probes": probes}))
        _corr_str("str-roundtrip", "(fun c : matcher * list (option str) => obs_str_roundtrip (fst c) (snd c))", cases,
                  "(matcher * list (option str))")
        # the statement itself on the same matchers (real code only)
        cnt = nt = 0
        for spec in specs:
            tags = spec if isinstance(spec, list) else []
            probes = [None, "", "a", "*"] + list(tags) + [t + "x" for t in tags[:2]] + [t[1:] for t in tags[:2]]
            r = oracle_str_roundtrip(spec, probes)
            cnt += 1
            nt += 1 if len(tags) > 1 or any(not t.isalnum() for t in tags) else 0
            if r:
                ctx.fail(r[0], r[1], {"kind": "str-roundtrip", "matcher": spec, "probes": probes}, True, "str-roundtrip")
        ctx.oracle_count("str-roundtrip", cnt, nt)

    stage('str-roundtrip', corr_str_roundtrip)

    def corr_ser_parse():
        # 4c. serialize_etag_response / parse_etag_response called directly (not through Response)
        r4 = ctx.sub_rng("corr-ser-parse")
        args = [("str", v) for v in ["", "a", '"a"', 'W/"a"', 'a"b', "a\\", "a\nb", "a\rb", ' "a"', 'W/"a', "*", '"a', ',"a"',
                                     "W/", "W/a", "a, b", "\xe9\xff", '\\"', "\\\\", '"a\\"', '"a" x', "\n"]]
        args += [("pair", v, st) for v in ["", "a", '"a"', 'W/"a"', 'a"b', "a\\", "a\nb", '\\"', "W/", "a, b", "*", "\xe9"]
                 for st in (True, False)]
        for i in range(n):
            tags = r_str_tags(r4, wild=(i % 4 == 3)) or [""]
            v = tags[0] if r4.random() < 0.8 else '"%s"' % tags[0]
            args.append(("str", v) if r4.random() < 0.5 else ("pair", v, r4.random() < 0.5))
        cases = [(carg(a), impl_ser_parse(a), {"kind": "ser-parse", "arg": list(a)}) for a in args]
        _corr_str("ser-parse", "obs_ser_parse", cases, "etag_arg")
        cnt = 0
        for a in args:
            r = oracle_ser_parse(a)
            cnt += 1
            if r:
                ctx.fail(r[0], r[1], {"kind": "ser-parse", "arg": list(a)}, True, "ser-parse")
        ctx.oracle_count("ser-parse", cnt, cnt)

    stage('ser-parse', corr_ser_parse)

    def corr_if_range():
        # 5. request.if_range and `resp in request.if_range`
        r5 = ctx.sub_rng("corr-if-range")
        cases = []
        for i in range(n):
            k = r5.random()
            oc = []
            if k < 0.22:
                value = r_datey(r5)
            elif k < 0.3:
                dd = r5.choice([0, 784111777, 1005268127, 2 ** 31, r5.randrange(0, 4 * 10 ** 9)])
                value = r5.choice([near_date(dd, r5.choice(NEAR_DATES)), near_date(dd, r5.choice(NEAR_DATES)),
                                   fmt_asctime(dd), fmt_asctime(dd), '"' + fmt_asctime(dd) + '"', 'W/"' + fmt_date(dd) + '"',
                                   '"' + fmt_date(dd) + '"', fmt_asctime(dd).replace("  ", " 0"), fmt_asctime(dd) + " ",
                                   fmt_asctime(dd)[4:], "x" + fmt_asctime(dd)])
                if value == fmt_asctime(dd):
                    oc = [{"kind": "if-range-date", "d": dd, "lms": [None, max(0, dd - 1), dd, dd + 1], "how": "header",
                           "form": "asctime"}]
            elif k < 0.6:
                t, w = r_tag(r5), r5.random() < 0.3
                value = render_tag(w, t)
            elif k < 0.65:
                value = r5.choice([None, "", "*", " GMT", "GMT", '"a" GMT', '"a GMT"', "a GMT"])
            else:
                value = r_header_value(r5)
            try:
                d = real_parse_date(value) if value and value.endswith(" GMT") else None
            except Exception:  # noqa -- the getter raises too: checked by the malformed oracle, not a correspondence case
                continue
            resps = []
            tbl = {}
            if value and value.endswith(" GMT"):
                tbl[value] = d
            elif value and not value.startswith(('"', 'W/"')):
                try:
                    d = tbl[value + " GMT"] = real_parse_date(value + " GMT")     # the asctime branch of IfRange.parse
                except Exception:  # noqa
                    continue
            for _ in range(4):
                e = r5.choice([None, "", render_tag(False, "a"), render_tag(True, "a"), value, "a", r_header_value(r5)])
                if r5.random() < 0.5 and value and not value.endswith(" GMT") and '"' in value:
                    e = value if r5.random() < 0.6 else value.replace("W/", "")
                base = d if d is not None and 0 < d < 10 ** 11 else 10 ** 9
                l = r5.choice([None, None, "", "garbage", fmt_date(max(0, base - 1)), fmt_date(base), fmt_date(base + 1),
                               fmt_date(r5.randrange(0, 4 * 10 ** 9))])
                if l:
                    try:
                        tbl[l] = real_parse_date(l)
                    except Exception:  # noqa
                        l = None
                resps.append((e, l))
            style = REQ_STYLES[i % len(REQ_STYLES)]
            obs = impl_if_range(value, resps, style)
            lit = "(%s, %s, %s)" % (clist(cpair(cstr(k_), cZopt(v_)) for k_, v_ in tbl.items()), costr(value),
                                    clist(cpair(costr(e), costr(l)) for e, l in resps))
            cases.append((lit, obs, {"kind": "if-range", "value": value, "style": style, "resps": [list(x) for x in resps], "oracle": oc}))
        _corr(ctx, "if-range", "(fun c : list (str * option Z) * option str * list (option str * option str) => obs_if_range (fst (fst c)) (snd (fst c)) (snd c))", cases,
              "(list (str * option Z) * option str * list (option str * option str))")

    stage('if-range', corr_if_range)

    def corr_histories():
        # 6. the same model functions against LONG-LIVED objects: one Request whose headers are edited between steps (getters in
        #    alternating order), one Response whose etag is assigned over and over.  The model is a pure function of the current
        #    header text, so each step is an ordinary case of `obs_getters` / `obs_set_etag`.
        r6 = ctx.sub_rng("corr-history")
        hl = ctx.scale(30, 60)
        cases = []
        for h in range(ctx.scale(10, 80)):
            seq = []
            pool = [v for v, _ in corr_values(ctx, r6, 6)[-6:]] + [None, "", "*", '"a", W/"b"', 'W/"a", "b"']
            for _ in range(hl):
                v = r6.choice(pool)
                seq.append((v, [None, "a", "b", "*"] + ([v[1:-1]] if v else [])))
            obs = run_getters_seq(seq, h)
            for i, (v, probes) in enumerate(seq):
                cases.append((cpair(costr(v), clist(costr(p) for p in probes)), obs[i],
                              {"kind": "getters-history", "history": h, "step": i, "value": v,
                               "oracle": [{"kind": "getters-seq", "seq": [list(x) for x in seq[:i + 1]], "flip": h}]}))
        _corr(ctx, "getters-history", "(fun c : option str * list (option str) => obs_getters (fst c) (snd c))", cases,
              "(option str * list (option str))")
        cases = []
        for h in range(ctx.scale(10, 80)):
            args = []
            for _ in range(hl):
                v = r_tag(r6, TAG_ALPHA + ['"', "W", "/", "\n", "\\", "b"], 3)
                args.append(("str", v) if r6.random() < 0.4 else ("pair", v, r6.random() < 0.5))
            obs = run_set_etag_seq(args)
            for i, a in enumerate(args):
                cases.append((carg(a), obs[i], {"kind": "set-etag-history", "history": h, "step": i, "arg": list(a),
                                                "oracle": [{"kind": "set-etag-seq", "args": [list(x) for x in args[:i + 1]]}]}))
        _corr(ctx, "set-etag-history", "obs_set_etag", cases, "etag_arg")

    stage('histories', corr_histories)

    # ---------------------------------------------------------------- oracle sweeps (public API, independent reference)
    def sweep(name, gen_cases, nontrivial=lambda c: True):
        cnt = nt = 0
        seen = set()
        try:
            gen_cases = list(gen_cases)
        except Exception:  # noqa
            import traceback
            ctx.broken.append("oracle %s: generator failed: %s" % (name, traceback.format_exc()[-400:]))
            gen_cases = []
        for case in gen_cases:
            cnt += 1
            sig = json.dumps(case, sort_keys=True)
            if sig not in seen:
                seen.add(sig)
                nt += 1 if nontrivial(case) else 0
                if cnt == 3 and len(ctx.samples) < 12:
                    ctx.samples.append({"oracle": name, "case": case})
            try:
                r = oracle_case(case)
            except Exception as e:  # noqa -- the oracles catch what the implementation raises; this is the harness itself
                r = ("oracle-raises:%s:%s" % (name, type(e).__name__), "the %s oracle raised %s: %s" % (name, type(e).__name__, e))
            if r:
                ctx.fail(r[0], r[1], case, True, name)
        ctx.oracle_count(name, cnt, nt)

    tags1 = [""] + TAG_ALPHA
    tags2 = tags1 + [a + b for a in TAG_ALPHA for b in TAG_ALPHA]
    seps3 = [",", ", ", " , "]

    cnt_ = [0]

    def exhaustive():
        for n_, tags, seps in ((1, tags2, [""]), (2, tags2, SEPS_RFC), (3, tags1, SEPS_RFC if ctx.thorough else seps3)):
            for ts_ in itertools.product(tags, repeat=n_):
                for ws in itertools.product((False, True), repeat=n_):
                    for ss in itertools.product(seps, repeat=n_ - 1):
                        items = [(("" if i == 0 else ss[i - 1]), ws[i], ts_[i]) for i in range(n_)]
                        cnt_[0] += 1
                        yield list_case(items, style=REQ_STYLES[cnt_[0] % len(REQ_STYLES)])
        if ctx.thorough:
            for ts_ in itertools.product(tags2, repeat=2):
                for sep in SEPS_RFC:
                    for lead, trail in (("", ","), (",", ""), (" ", " "), (", ", " ,")):
                        yield list_case([("", False, ts_[0]), (sep, True, ts_[1])], lead, trail)

    seeds = [[("", False, "a"), (",", False, "b")], [("", False, "a"), (" ,", False, "b")],
             [("", False, "a\\"), (", ", False, "b")], [("", True, "a"), (",", True, "b"), ("\t,\t", False, "c")],
             [("", False, "a, b"), (",", False, "c\\"), (" , ", True, "\\")],
             [("", False, "v1"), (", ", True, "v1")], [("", True, "v1"), (", ", False, "v1")],
             [("", True, "v1"), (",", True, "v2"), (" ,", False, "v1"), (", ", True, "v1")],
             [("", False, "v1"), (",", True, "v1"), (",", True, "v2"), (",", False, "v2"), (",", True, "v2")]]
    sweep("lists-seeds", [list_case(it, style=st) for it in seeds for st in REQ_STYLES] +
          [list_case(it, ",", ",") for it in seeds])
    sweep("lists-exhaustive", exhaustive(), lambda c: len(c["items"]) > 1 or not c["items"][0][2].isalnum())

    def random_lists():
        r = ctx.sub_rng("oracle-lists")
        for i in range(ctx.scale(4000, 120000)):
            items = r_items(r, SEPS_RFC, 6, TAG_ALPHA + ["b", "W", "/", "*", "\t", "\\", "W/", "\xff", "Ā", "GMT"])
            yield list_case(items, r.choice(["", "", "", " ", ",", ", ", "\t"]), r.choice(["", "", "", " ", ",", " ,"]),
                            REQ_STYLES[i % len(REQ_STYLES)])

    sweep("lists-random", random_lists())
    sweep("star-absent", [{"kind": "star-absent"}])

    def etags():
        vals_ = tags2 + ["a" + c for c in ("\\", "\\\\", " GMT", "*")] + ["*", "W/a", "W/", "\t", "a\tb", "\x85", "Ā",
                                                                         "\\\\", "a\\b", "GMT", " GMT", "x" * 300]
        seps = SEPS_RFC if ctx.thorough else [", ", ",", " , ", "\t,"]
        for v in vals_:
            for sep in seps:
                yield {"kind": "etag", "v": v, "strong": None, "how": "str", "sep": sep}
                yield {"kind": "etag", "v": v, "strong": None, "how": "ctor", "sep": sep}
                for st in (True, False):
                    yield {"kind": "etag", "v": v, "strong": st, "how": "pair", "sep": sep}
                    yield {"kind": "etag", "v": v, "strong": st, "how": "ctor", "sep": sep, "neighbours": ["a\\", ","]}
        r = ctx.sub_rng("oracle-etag")
        for _ in range(ctx.scale(1500, 40000)):
            v = r_tag(r, TAG_ALPHA + ["b", "W", "/", "*", "\t", "\\", "\xff", "Ā", "'"], 6)
            yield {"kind": "etag", "v": v, "strong": r.choice([None, True, False]), "how": r.choice(["str", "pair", "ctor"]),
                   "sep": r.choice(SEPS_RFC), "neighbours": [r_tag(r), r_tag(r)]}

    def fix_how(c):
        if c["how"] in ("str",):
            c["strong"] = None
        if c["how"] in ("pair", "pair-int", "pair-obj", "namedtuple") and c["strong"] is None:
            c["strong"] = True
        return c

    def with_cfg(cases_):
        for i, c in enumerate(cases_):
            c = fix_how(c)
            c.setdefault("cfg", RESP_CFGS[i % len(RESP_CFGS)])
            c.setdefault("style", REQ_STYLES[(i // 3) % len(REQ_STYLES)])
            yield c
            if i % 5 == 0:           # the same value through the other assignment shapes
                h = SET_HOWS[3 + (i // 5) % (len(SET_HOWS) - 3)]
                yield fix_how(dict(c, how=h, strong=c["strong"] if h in ("strsub", "after-none", "after-del") else bool(c["strong"])))

    sweep("etag-roundtrip-echo", with_cfg(etags()))

    def if_range_tags():
        r = ctx.sub_rng("oracle-if-range")
        tl = (tags2 if ctx.thorough else tags1 + ["a\\", "\\\\", "a,", ", ", "a GMT"]) + [
            fmt_asctime(784111777), fmt_date(784111777), "Sunday, 06-Nov-94 08:49:37 GMT", " GMT", "GMT"]
        for t in tl:
            for weak in (False, True):
                resps = [(None, True), (t, True), (t, False), (t + "x", True), ("", True), (t[:-1], True), (t + "\\", True)]
                yield {"kind": "if-range-tag", "t": t, "weak": weak, "resps": [list(x) for x in resps],
                       "style": REQ_STYLES[(len(t) + weak) % len(REQ_STYLES)]}
        for _ in range(ctx.scale(600, 20000)):
            t = r_tag(r, None, 5)
            resps = [(t, r.random() < 0.5), (r_tag(r), True), (None, True), (t + r.choice(["", "x", "\\", " "]), True)]
            yield {"kind": "if-range-tag", "t": t, "weak": r.random() < 0.3, "resps": [list(x) for x in resps],
                   "style": r.choice(REQ_STYLES)}

    sweep("if-range-tag", if_range_tags())

    def if_range_dates():
        r = ctx.sub_rng("oracle-if-range-date")
        pts = [784111777, 0, 1, 59, 60, 86399, 86400, 951782399, 951782400, 1005268127, 2 ** 31 - 1, 2 ** 31, 4102444800, 253402300799]
        for d in pts:
            yield {"kind": "if-range-date", "d": d, "lms": [None, max(0, d - 1), d, min(253402300799, d + 1), 0, 10 ** 9],
                   "how": LM_HOWS[d % len(LM_HOWS)], "form": DATE_FORMS[(d // 7) % len(DATE_FORMS)]}
            for how in LM_HOWS:
                for form in DATE_FORMS:
                    yield {"kind": "if-range-date", "d": d, "lms": [None, max(0, d - 1), d, min(253402300799, d + 1)],
                           "how": how, "form": form}
        for _ in range(ctx.scale(400, 10000)):
            d = r.randrange(0, 5 * 10 ** 9)
            yield {"kind": "if-range-date", "d": d,
                   "lms": [None, max(0, d - 1), d, d + 1, r.randrange(0, 5 * 10 ** 9), max(0, d - r.randrange(1, 10 ** 6))],
                   "how": r.choice(LM_HOWS), "form": r.choice(DATE_FORMS), "style": r.choice(REQ_STYLES)}

    sweep("if-range-date", if_range_dates())

    def near_dates():
        r = ctx.sub_rng("oracle-near-date")
        for d in [784111777, 0, 86400 * 9, 1005268127, 2 ** 31] + [r.randrange(0, 4 * 10 ** 9) for _ in range(ctx.scale(20, 400))]:
            for variant in NEAR_DATES:
                yield {"kind": "if-range-near-date", "d": d, "variant": variant, "style": r.choice(REQ_STYLES)}

    sweep("if-range-near-date", near_dates())

    def malformed():
        r = ctx.sub_rng("oracle-malformed")
        for v in ["x GMT", " GMT", '"a" GMT', "Mon, 01 Jan 99999 00:00:00 GMT", "Mon, 01 Jan 10000 00:00:00 GMT",
                  "Thu, 01 Jan 1970 00:00:00 -9999 GMT", "01 Jan 0001 00:00:00 +2359 GMT", "\x00", "Ā", "W/", 'W/"', '"',
                  "a" * 5000, '"' * 200, '\\"' * 200, ('"a\\' * 50)]:
            yield {"kind": "malformed", "value": v}
        small = ['"', "\\", "W/", ",", " ", "a", "*"]
        for L in range(1, ctx.scale(4, 6)):
            for tup in itertools.product(small, repeat=L):
                yield {"kind": "malformed", "value": "".join(tup)}
        for _ in range(ctx.scale(3000, 60000)):
            k = r.random()
            v = r_datey(r) if k < 0.3 else (r_malformed(r, 12) if k < 0.7 else mutate(r_header_value(r), r))
            if v:
                yield {"kind": "malformed", "value": v, "style": r.choice(REQ_STYLES)}

    sweep("malformed", malformed())

    # ---- long-lived objects (statefulness): one Request / one Response / held matchers / module-level order
    def req_histories():
        r = ctx.sub_rng("oracle-req-history")
        for _ in range(ctx.scale(400, 6000)):
            yield {"kind": "req-history", "steps": r_req_history(r, r.randrange(8, ctx.scale(40, 80)))}

    sweep("history-request", req_histories())

    def module_orders():
        r = ctx.sub_rng("oracle-module-order")
        uniq = 0
        for _ in range(ctx.scale(60, 600)):
            for order in itertools.permutations(list(GETTERS)):
                for shared in (False, True):
                    uniq += 1          # fresh tags: this is the first time the process sees this header value
                    s_, w_ = "s%d%s" % (uniq, r.choice(["", "\\", ","])), "w%d" % uniq
                    items = [[False, s_], [True, w_], [r.random() < 0.5, "c%d" % uniq]]
                    r.shuffle(items)
                    items = [[r.choice(SEPS_RFC)] + it for it in items]
                    yield {"kind": "module-order", "items": items, "order": list(order), "shared": shared}

    sweep("history-module-order", module_orders())

    def resp_histories():
        r = ctx.sub_rng("oracle-resp-history")
        for _ in range(ctx.scale(400, 6000)):
            yield {"kind": "resp-history", "steps": r_resp_history(r, r.randrange(6, ctx.scale(40, 80)))}

    sweep("history-response", resp_histories())

    # ---- argument shapes of the setters, md5_etag, and the outside of the model's value domains
    def setter_shapes():
        pool = [["a"], ["a", "b"], ["a\\", ","], [""], ["x y", "a", "\xe9"], ["v1", "v1"], ["W/a"], ["*"]]
        for tags in pool:
            for which in GETTERS:
                for form in ("matcher", "any", "no", "none-after-value", "del-after-value"):
                    yield {"kind": "setter-shapes", "tags": tags, "which": which, "form": form}

    sweep("setter-shapes", setter_shapes())
    sweep("md5-etag", [{"kind": "md5-etag", "body": b.hex(), "cfg": cfg} for cfg in RESP_CFGS
                       for b in (b"", b"hello", b"\xff" * 7, bytes(range(256)), b"a" * 5000)])

    def outside():
        for i in range(len(OUTSIDE_ETAG_VALUES)):
            for pair in (None, True, False):
                for cfg in RESP_CFGS:
                    yield {"kind": "etag-outside", "index": i, "pair": pair, "cfg": cfg}
        for which in GETTERS:
            for form in ("bytes", "int", "list", "asctime", "false", "zero"):
                yield {"kind": "header-outside", "which": which, "form": form}

    sweep("outside-domain", outside())

    def beyond_etagc():
        # tag texts outside RFC etagc but inside the theorem (anything but DQUOTE): controls, LF, NUL, DEL, NEL, astral
        r = ctx.sub_rng("oracle-beyond-etagc")
        alpha = ["\n", "\r", "\x00", "\x7f", "\x85", "\x1f", "\u2028", "\U0001f600", "\ud7ff", "a", ",", " ", "\\", "\t"]
        for i in range(ctx.scale(1500, 30000)):
            items = r_items(r, SEPS_RFC, 4, alpha)
            yield list_case(items, r.choice(["", ",", " "]), r.choice(["", ",", " ,"]),
                            r.choice(["environ", "base-environ", "attr", "ctor-kw", "subclass-copy"]))

    sweep("lists-beyond-etagc", beyond_etagc())

    ctx.extra["rule"] = (
        "correspondence: header values rendered from random tag lists (tags over {a , SP \\ e-acute b W / * TAB}, RFC separators "
        "and wild ones such as ';', LF, NEL, NBSP, U+3000, none), one-edit mutants and random strings over a quote-heavy alphabet; "
        "the model's findall/match for BOTH live patterns, the two getters with membership probes, Response.etag set/get, raw "
        "ETag headers and If-Range (parse_date replayed from recorded results) are compared in Coq with webob's observations. "
        "str-roundtrip: AnyETag, NoETag and ETagMatcher lists of 0..6 tags (tags over {a b , SP W/ \\ * e-acute y-diaeresis U+0080 ~ ! # TAB w/ /} "
        "incl. the empty tag; every 5th list wild: DQUOTE, LF, CR, controls, U+3000): str(m), ETagMatcher.parse(str(m)) in both modes, "
        "request.if_match = m / request.if_none_match = m (stored text, getter answer, membership) vs matcher_str / etag_fset; "
        "ser-parse: serialize_etag_response -> parse_etag_response called directly; each followed by the statement itself on the real "
        "code (quote-free tags: same tags in the same order, t in parse(str(m)) iff t in m). "
        "oracle: lists-exhaustive = every list of <=2 tags (tags of length <=2 over {a , SP \\ e-acute}) and <=3 tags (length <=1) "
        "x weak/strong x every RFC separator spelling (OWS , OWS incl. empty elements); lists-random = up to 6 tags with lead/"
        "trail; membership must equal the rendered tag list (probes: every tag, its neighbours by one character, quoted forms); "
        "etag-roundtrip-echo = Response.etag set three ways, header shape, read back, echo alone and inside lists; if-range-*; "
        "malformed = every string of length <=%d over {\" \\ W/ , SP a *} + random garbage + date-like values: getters must "
        "return matchers.  history-* = long-lived objects: ONE Request serving membership tests under all three getters "
        "interleaved with header edits (environ and attribute setters) and with tests on matcher objects obtained earlier "
        "(whose state must not change), ONE Response whose etag is set/cleared/read repeatedly with strong/weak flips and "
        "echoed through ONE Request under all three getters in rotating order, and fresh header values evaluated under the "
        "three getters in all 6 orders (module-level state); every answer is compared with the reference and with a new "
        "object; getters-history / set-etag-history feed the same long-lived objects to the Coq model.  Configurations: every case "
        "rotates through 8 ways of getting the header into a Request (environ edit, headers= canonical/lower-case, "
        "BaseRequest(environ), headers view, constructor keyword, attribute setter, POST subclass + copy) and 6 Response "
        "configurations (plain, subclass with overridden defaults, status text + charset, pre-existing etag/ETAG headers, "
        "exception instance, conditional 206); etag assignment in 9 shapes (str, str subclass, bool/int/object flag, "
        "namedtuple, constructor, after None/del); Last-Modified in 6 shapes, If-Range dates in 4; setter-shapes = matcher "
        "objects / None / del assigned to the request attributes; outside-domain = values with DQUOTE, CR/LF, non-str values "
        "and non-str environ entries (refusal without damage, coherent views); lists-beyond-etagc = tags with controls, LF, "
        "NUL, astral code points.  non-trivial = list cases with >1 tag or a non-alphanumeric tag; all other oracle cases count as "
        "non-trivial when distinct" % (ctx.scale(3, 5)))
    ctx.extra["exhaustive"] = False
    ctx.assume += [
        "tag values assigned to Response.etag contain no CR/LF (header_getter refuses them with ValueError; modelled, not part "
        "of the property's quantifier) and no double quote (the property's own restriction)",
        "webob.datetime_utils.parse_date is external to the model (a Section variable); If-Range dates are compared as the "
        "integers it returns; its behaviour on HTTP-dates is exercised by the if-range-date oracle only",
        "IfRangeDate(None) (an If-Range value ending in ' GMT' that is not a date) against a response that has Last-Modified "
        "raises TypeError on the pinned tree: canonicalised to 'no match' here, reported by C06 (fixes/C06-6-if-range-bad-date)",
        "header values reach the getters as str (WSGI environ); bytes are outside the model",
    ]
    ctx.trusted += [
        "harness/props/c11.py translate_pattern: CPython re._parser tree of the two live etag patterns -> (prefix class, "
        "escape alternative, body exclusion); fail-closed on any other shape; validated on every run by the `scan` "
        "correspondence against re.findall / re.match",
        "CPython `re` backtracking semantics for the pattern shape (?:^|PRE)(W/)?\"BODY\" as transcribed in body_scan / scan_go "
        "(validated by correspondence, not verified)",
    ]


def replay(ctx, path):
    data = json.load(open(path))
    case = data["case"]
    r = oracle_case(case) if isinstance(case, dict) and case.get("kind") else None
    if isinstance(case, dict) and case.get("kind") is None:
        print("replay: nothing executable in this file (broken obligation): %s" % data.get("what"))
        return 1
    if r:
        print("VIOLATION property=C11 replay=%s" % path)
        print("  (%s) %s" % r)
        return 1
    print("replay passes on the current tree")
    return 0
