"""C02 — Response emits exactly its status, headers and body; Content-Length is truthful.

Tie to the source
  * gen(ctx): coq/Gen/C02_status.v (status_reasons / status_generic_reasons) is regenerated from the
    webob.util of the tree under check;
  * correspondence of the Gallina model coq/Model/C02_RespBody.v (constructor + every body / charset /
    status mutation + __call__) with real webob.Response objects of five classes (Response and four
    subclasses overriding default_content_type / default_charset / default_conditional_response) driven
    through generated histories: after every step the return value (or exception class) of the
    operation and the snapshot (status, headerlist, type and chunks of app_iter) are compared, and at
    the end what remains to be yielded.  gzip streams and md5 digests are external: the model runs
    with a *symbolic* gzip (OPEN data CLOSE, two code points outside the octets) and a symbolic digest;
    the harness maps the real bytes to that symbolic form with zlib (never bytewise) and maps a
    truthful Content-Length to the symbolic length;
  * oracle: the property's executable statement on the real implementation.  Every prefix of every
    history is replayed and finished in three ways -- GET through a strict WSGI harness, HEAD through
    the same harness, `.body`/`.text` read followed by Request.call_application -- and compared with
    a reference written from the statement (expected body bytes as raw / gzip-of segments).
"""
import base64
import gzip
import hashlib
import io
import itertools
import json
import os
import re
import zlib
from urllib.parse import urljoin

from harness import fw
from harness.fw import Err, cstr, clist, cpair, copt, cbool, cZ

IMPORTS = ["Webob.Lib.PyStr", "Webob.Lib.C02_Base", "Webob.Lib.C02_Utf8", "Webob.Gen.C02_status",
           "Webob.Model.C02_RespBody"]
GEN_PATH = os.path.join(fw.COQ, "Gen", "C02_status.v")

BASE_URL = "http://example.com/app/dir/page"
NOBODY = ("204", "205", "304")
WELL_FORMED_STATUS = re.compile(r"^[0-9]{3}(?: |$)")


def nobody_status(st):
    """True/False for a well-formed status line ("NNN reason"): does its code forbid a body; None for a
    malformed one (leading space, tab, non-ASCII digits, four digits ...): outside the statement."""
    if not WELL_FORMED_STATUS.match(st):
        return None
    code = int(st[:3])
    return 100 <= code < 200 or code in (204, 205, 304)


def environ(method):
    return {
        "REQUEST_METHOD": method, "SCRIPT_NAME": "/app", "PATH_INFO": "/dir/page", "QUERY_STRING": "",
        "SERVER_NAME": "example.com", "SERVER_PORT": "80", "HTTP_HOST": "example.com",
        "SERVER_PROTOCOL": "HTTP/1.0", "wsgi.version": (1, 0), "wsgi.url_scheme": "http",
        "wsgi.input": io.BytesIO(b""), "wsgi.errors": io.StringIO(), "wsgi.multithread": False,
        "wsgi.multiprocess": False, "wsgi.run_once": False,
    }


# =========================================================================== classes under test
_CLS = {}
# name -> (default_content_type, default_charset, default_conditional_response, default_body_encoding)
CLS_CFG = {
    "base": ("text/html", "UTF-8", False, "UTF-8"),
    "json": ("application/json", "UTF-8", False, "UTF-8"),
    "latin": ("text/plain", "latin-1", False, "UTF-8"),
    "nodef": (None, None, False, "UTF-8"),
    "cond": ("text/html", "UTF-8", True, "UTF-8"),
    "xml": ("application/atom+xml", "utf-8", True, "UTF-8"),
    "benc": ("application/octet-stream", None, False, "latin-1"),
    "noenc": ("image/png", None, True, None),
    "ctcs": ("text/plain; charset=iso-8859-1", "UTF-8", False, "UTF-8"),
    "ctcs2": ("application/x-thing;charset=ascii", None, False, "latin-1"),
}
# classes only the oracle drives (the model decodes strictly): name -> (base configuration, extra class attributes)
ORACLE_CLS = {
    "lenient": ("base", {"unicode_errors": "replace"}),
    "ignore": ("benc", {"unicode_errors": "ignore", "default_body_encoding": "ascii"}),
}
ALL_CLS = sorted(CLS_CFG) + sorted(ORACLE_CLS)


def classes():
    if not _CLS:
        from webob import Response
        _CLS["base"] = Response
        for name, (ct, cs, cond, benc) in CLS_CFG.items():
            if name == "base":
                continue
            _CLS[name] = type("Resp_" + name, (Response,), {
                "default_content_type": ct, "default_charset": cs, "default_conditional_response": cond,
                "default_body_encoding": benc})
        for name, (base, extra) in ORACLE_CLS.items():
            _CLS[name] = type("Resp_" + name, (_CLS[base],), dict(extra))
        # the configuration the model is run with must be what the class really has
        for name, (ct, cs, cond, benc) in CLS_CFG.items():
            k = _CLS[name]
            assert (k.default_content_type, k.default_charset, k.default_conditional_response, k.default_body_encoding,
                    k.unicode_errors) == (ct, cs, cond, benc, "strict"), name
    return _CLS


class _Reiterable:
    """an app_iter object that is neither list nor tuple: iterable again and again, with a close() method"""

    def __init__(self, chunks):
        self.chunks, self.closed = list(chunks), 0

    def __iter__(self):
        return iter(list(self.chunks))

    def close(self):
        self.closed += 1


class _BlockFile:
    """file-like whose read() returns the prepared blocks one by one (Response.body_file = ...)."""

    def __init__(self, blocks):
        self.blocks = list(blocks)

    def read(self, n=-1):
        return self.blocks.pop(0) if self.blocks else b""


def mk_app(kind, chunks):
    chunks = [bytes.fromhex(c) for c in chunks]
    if kind == "list":
        return list(chunks)
    if kind == "tuple":
        return tuple(chunks)
    if kind == "iter":
        return iter(list(chunks))
    if kind == "gen":
        return (c for c in chunks)
    if kind == "obj":
        return _Reiterable(chunks)
    raise ValueError(kind)


def py_status(s):
    """JSON form of a status argument -> the Python value ({"bytes": text} is a bytes status line)."""
    return s["bytes"].encode("latin-1") if isinstance(s, dict) else s


# =========================================================================== driving the real object
def build(case):
    """Response object (or Err) for case['cls'] / case['ctor']."""
    c = case["ctor"]
    kw = {}
    if "body" in c:
        kw["body"] = bytes.fromhex(c["body"])
    if "text" in c:
        kw["body"] = c["text"]
    if "json" in c:
        kw["json" if c.get("json_alias") else "json_body"] = c["json"]
    if "status" in c:
        # status_alias: the same status given through the keyword status_int= / status_code=
        kw[c.get("status_alias") or "status"] = py_status(c["status"])
    if "headerlist" in c:
        kw["headerlist"] = [tuple(h) for h in c["headerlist"]]
    if "app_iter" in c:
        kw["app_iter"] = mk_app(*c["app_iter"])
    if "content_type" in c:
        kw["content_type"] = c["content_type"]
    if "charset" in c:
        kw["charset"] = c["charset"]
    if "cond" in c:
        kw["conditional_response"] = c["cond"]
    if "content_length" in c:
        kw["content_length"] = c["content_length"]
    try:
        return classes()[case["cls"]](**kw)
    except Exception as e:  # noqa
        return Err(type(e).__name__)


def wsgi_call(app, method, env=None):
    """A strict WSGI server: records every start_response call, iterates, closes."""
    env = env or environ(method)
    calls = []
    problems = []

    def start_response(status, headers, exc_info=None):
        calls.append((status, headers))
        return lambda data: problems.append("write() callable used")

    it = app(env, start_response)
    chunks = []
    try:
        for ch in it:
            if not calls:
                problems.append("a chunk was yielded before start_response was called")
            chunks.append(ch)
    finally:
        if hasattr(it, "close"):
            it.close()
    return calls, chunks, problems


def apply_op(r, op):
    """Apply one history step to the real object; returns (response to continue with, result, other)
    where result is the value returned/read (bytes, str, int, list, None) or Err(class) and other is the
    response NOT followed after a copy (else None)."""
    t = op[0]
    other = None
    try:
        if t == "set_body":
            r.body = bytes.fromhex(op[1])
            res = None
        elif t == "del_body":
            del r.body
            res = None
        elif t == "set_text":
            r.text = op[1]
            res = None
        elif t == "set_json":
            r.json = op[1]
            res = None
        elif t == "get_body":
            res = r.body
        elif t == "get_text":
            res = r.text
        elif t == "write":
            res = r.write(bytes.fromhex(op[1]))
        elif t == "write_text":
            res = r.write(op[1])
        elif t == "fwrite":              # through the file-like view: body_file.write
            res = r.body_file.write(bytes.fromhex(op[1]))
        elif t == "file_write":          # through the file-like view: body_file.writelines
            f = r.body_file
            f.writelines([bytes.fromhex(x) for x in op[1]])
            f.flush()
            res = None
        elif t == "set_app_iter":
            r.app_iter = mk_app(op[1], op[2])
            res = None
        elif t == "set_body_file":
            r.body_file = _BlockFile(bytes.fromhex(x) for x in op[1])
            res = None
        elif t == "del_app_iter":
            del r.app_iter
            res = None
        elif t == "encode":
            r.encode_content(op[1], lazy=op[2])
            res = None
        elif t == "decode":
            r.decode_content()
            res = None
        elif t == "md5_etag":
            r.md5_etag(set_content_md5=op[1])
            res = None
        elif t == "copy":
            c = r.copy()
            r, other = (c, r) if op[1] else (r, c)
            res = None
        elif t == "set_charset":
            r.charset = op[1]
            res = None
        elif t == "del_charset":
            del r.charset
            res = None
        elif t == "set_content_type":
            r.content_type = op[1]
            res = None
        elif t == "set_status":
            r.status = py_status(op[1])
            res = None
        elif t == "set_cond":
            r.conditional_response = op[1]
            res = None
        elif t == "set_attr":            # instance-level override of a class knob, after construction
            setattr(r, op[1], op[2])
            res = None
        elif t == "md5_etag_of":
            r.md5_etag(bytes.fromhex(op[1]), set_content_md5=op[2])
            res = None
        elif t == "reassign_app_iter":   # the very object already held
            r.app_iter = r.app_iter
            res = None
        elif t == "bad":                 # argument of a type the setter documents as refused
            {"body_str": lambda: setattr(r, "body", "text"),
             "body_bytearray": lambda: setattr(r, "body", bytearray(b"ab")),
             "body_none": lambda: setattr(r, "body", None),
             "text_bytes": lambda: setattr(r, "text", b"ab"),
             "write_int": lambda: r.write(5),
             "status_none": lambda: setattr(r, "status", None)}[op[1]]()
            res = None
        elif t == "set_location":
            r.location = op[1]
            res = None
        elif t == "set_content_length":
            r.content_length = op[1]
            res = None
        elif t == "call":
            calls, chunks, problems = wsgi_call(r, op[1])
            res = [[[s, [list(h) for h in hl]] for s, hl in calls], chunks]
        else:
            raise ValueError("unknown op %r" % (op,))
    except AssertionError:
        raise
    except Exception as e:  # noqa
        res = Err(type(e).__name__)
    return r, res, other


# =========================================================================== reference (from the statement)
SCHEME = re.compile(r"^[A-Za-z]+:")


def expected_headers(hl, base):
    """The header list start_response must receive: the response's own, a relative Location resolved."""
    out = []
    for k, v in hl:
        if k.lower() == "location" and not SCHEME.match(v):
            v = urljoin(base, v)
        out.append((k, v))
    return out


def seg_concrete(segs):
    """bytes if every segment is raw, else None."""
    if all(s[0] == "raw" for s in segs):
        return b"".join(s[1] for s in segs)
    return None


def seg_match(segs, data):
    """None if `data` is exactly the segments (raw bytes / a gzip member of the inner segments), else text."""
    rest = data
    for s in segs:
        if s[0] == "raw":
            if rest[:len(s[1])] != s[1]:
                return "expected the bytes %r at offset %d, got %r" % (s[1], len(data) - len(rest), rest[:len(s[1]) + 8])
            rest = rest[len(s[1]):]
        else:
            d = zlib.decompressobj(31)
            try:
                inner = d.decompress(rest) + d.flush()
            except zlib.error as e:
                return "not a valid gzip stream at offset %d (%s): %r" % (len(data) - len(rest), e, rest[:24])
            if not d.eof:
                return "truncated gzip stream at offset %d" % (len(data) - len(rest))
            m = seg_match(s[1], inner)
            if m:
                return "inside the gzip member: " + m
            rest = d.unused_data
    if rest:
        return "%d unexpected trailing bytes %r" % (len(rest), rest[:16])
    return None


def codec_ok(name):
    try:
        "".encode(name)
        return True
    except LookupError:
        return False


class Ref:
    """What the statement says the response holds: expected body as segments, how the app_iter behaves."""

    def __init__(self, segs, kind, raw=False):
        self.segs = segs          # list of ("raw", bytes) | ("gz", segs)
        self.kind = kind          # list | tuple | iter | gen
        # a Content-Length was written by hand (r.content_length = n / content_length=) and no body mutation
        # that replaces the body has happened since: its value is the caller's business until then
        self.raw = raw

    def clone(self):
        return Ref(list(self.segs), self.kind, self.raw)


def ref_step(ref, r, op, res, pre):
    """Advance the reference over `op` whose result on the real object was `res`; `pre` holds public
    attributes read before the step.  Returns a failure (key, text) or None."""
    t = op[0]
    raised = isinstance(res, Err)

    def unexpected(what="raised %s" % (res.name if raised else "")):
        return ("%s:unexpected-exception" % t, "%r %s" % (op, what))

    if t in ("set_body", "del_body", "set_json"):
        if raised:
            return unexpected()
        b = {"set_body": lambda: bytes.fromhex(op[1]), "del_body": lambda: b"",
             "set_json": lambda: json.dumps(op[1], separators=(",", ":")).encode("utf-8")}[t]()
        ref.segs, ref.kind, ref.raw = [("raw", b)], "list", False
        return None
    if t == "set_text":
        enc = pre["charset"] or pre["benc"]
        if not enc:
            return None if raised and res.name == "AttributeError" else \
                ("set_text:no-encoding", "%r without charset or default_body_encoding gave %r" % (op, res))
        try:
            b = op[1].encode(enc)
        except (LookupError, UnicodeError):
            return None if raised else ("set_text:unencodable-accepted", "%r accepted under charset %r" % (op, enc))
        if raised:
            return unexpected()
        ref.segs, ref.kind, ref.raw = [("raw", b)], "list", False
        return None
    if t in ("write", "fwrite", "write_text", "file_write"):
        if t == "write_text":
            if not pre["charset"]:
                return None if raised and res.name == "TypeError" else \
                    ("write:text-without-charset", "%r without a charset gave %r" % (op, res))
            try:
                b = op[1].encode(pre["charset"])
            except (LookupError, UnicodeError):
                return None if raised else ("write:unencodable-accepted", "%r accepted" % (op,))
        elif t in ("write", "fwrite"):
            b = bytes.fromhex(op[1])
        else:
            b = b"".join(bytes.fromhex(x) for x in op[1])
        if raised:
            return unexpected()
        if t == "file_write" and not op[1]:
            return None                      # writelines([]) writes nothing
        if t != "file_write" and res != len(b):
            return ("write:return-value", "%r returned %r, %d bytes were written" % (op, res, len(b)))
        ref.segs = ref.segs + [("raw", b)]
        ref.kind = "list"
        return None
    if t in ("set_app_iter", "set_body_file"):
        if raised:
            return unexpected()
        chunks = op[2] if t == "set_app_iter" else op[1]
        ref.segs = [("raw", b"".join(bytes.fromhex(c) for c in chunks))]
        ref.kind = op[1] if t == "set_app_iter" else "gen"
        ref.raw = False
        return None
    if t == "del_app_iter":
        if raised:
            return unexpected()
        ref.segs, ref.kind, ref.raw = [("raw", b"")], "list", False
        return None
    if t == "set_content_length":
        if raised:
            return unexpected()
        if op[1] is not None:
            ref.raw = True
        return None
    if t == "encode" and op[1] == "gzip":
        if raised:
            return unexpected()
        if pre["content_encoding"] == "gzip":
            return None                      # already encoded: nothing happens
        ref.segs = [("gz", ref.segs)]
        ref.kind = "gen" if op[2] else "list"
        ref.raw = False
        if [v for k, v in r.headerlist if k.lower() == "content-encoding"] != ["gzip"]:
            return ("gzip:content-encoding-not-set", "after encode_content the headers are %r" % (r.headerlist,))
        return None
    if t == "decode" or (t == "encode" and op[1] == "identity"):
        ce = pre["content_encoding"] or "identity"
        if ce == "identity":
            return unexpected() if raised else None
        if ce != "gzip":
            return None
        segs = ref.segs
        if segs and segs[0][0] == "gz" and all(s[0] == "raw" and not s[1].strip(b"\0") for s in segs[1:]):
            if raised:
                return ("gzip:decode-fails", "decode_content() of an encode_content() stream raised %s" % res.name)
            ref.segs, ref.kind, ref.raw = list(segs[0][1]), "list", False
            if any(k.lower() == "content-encoding" for k, _ in r.headerlist):
                return ("gzip:content-encoding-left", "after decode_content the headers are %r" % (r.headerlist,))
            return None
        conc = seg_concrete(segs)
        if conc is not None:
            try:
                want = gzip.decompress(conc)
            except Exception:  # noqa
                want = None
            if want is None:
                if not raised:
                    return ("gzip:garbage-decoded", "decode_content() accepted a body that is not gzip: %r" % conc[:40])
                ref.kind = "list"        # the body was read (joined) before the failure
                return None
            if raised:
                return unexpected()
            ref.segs, ref.kind, ref.raw = [("raw", want)], "list", False
            return None
        # a gzip member followed by other bytes: outcome not determined by the statement
        if raised:
            ref.kind = "list"
            return None
        return ("skip", "")
    if t == "md5_etag":
        if raised:
            return unexpected()
        ref.kind = "list"
        conc = seg_concrete(ref.segs)
        return check_digest(r, conc, op[1]) if conc is not None else None
    if t == "copy":
        if raised:
            return unexpected()
        ref.kind = "list"
        return None
    if t in ("set_charset", "del_charset", "set_content_type", "set_status", "set_location", "set_cond", "set_attr"):
        if t == "set_location" and op[1] and ("\r" in op[1] or "\n" in op[1]):
            if not raised:
                return ("set_location:control-characters-accepted", "%r accepted" % (op,))
            if [tuple(h) for h in r.headerlist] != pre["headerlist"]:
                return ("set_location:refused-but-changed", "%r was refused but the headers went from %r to %r"
                        % (op, pre["headerlist"], r.headerlist))
        return None                      # may legitimately refuse (ValueError/KeyError/AttributeError); body untouched
    if t == "reassign_app_iter":
        if raised:
            return unexpected()
        ref.raw = False
        return None
    if t == "bad":
        ok = ("TypeError", "AttributeError") if op[1] == "text_bytes" and not (pre["charset"] or pre["benc"]) else ("TypeError",)
        if not (raised and res.name in ok):
            return ("refusal:" + op[1], "%r gave %r instead of TypeError" % (op, res))
        if r.status != pre["status"] or [tuple(h) for h in r.headerlist] != pre["headerlist"]:
            return ("refusal:state-changed", "%r was refused but changed status/headers to %r %r" % (op, r.status, r.headerlist))
        return None
    if t == "md5_etag_of":
        if raised:
            return unexpected()
        return check_digest(r, bytes.fromhex(op[1]), op[2])
    if t == "get_body":
        if raised:
            return unexpected()
        m = seg_match(ref.segs, res)
        if m:
            return ("readback:body", ".body: " + m)
        ref.kind = "list"
        return None
    if t == "get_text":
        conc = seg_concrete(ref.segs)
        enc = pre["charset"] or pre["benc"]
        if not enc:
            return None if raised and res.name == "AttributeError" else \
                ("get_text:no-encoding", ".text without charset or default_body_encoding gave %r" % (res,))
        if conc is not None:
            try:
                want = conc.decode(enc, pre["uerr"])
            except (LookupError, UnicodeError):
                want = None
            if want is None:
                if not raised:
                    return ("readback:text", ".text gave %r for undecodable body %r" % (res, conc))
            elif raised or res != want:
                return ("readback:text", ".text gave %r, body %r decodes (%s) to %r" % (res, conc, enc, want))
        ref.kind = "list"
        return None
    if t == "call":
        if raised:
            return unexpected()
        m = check_call(ref, pre, op[1], res[0], res[1], BASE_URL)
        if m:
            return m
        if op[1] != "HEAD":
            if ref.kind in ("iter", "gen"):
                ref.segs = [("raw", b"")]
        elif ref.kind == "gen":
            ref.segs = [("raw", b"")]     # a WSGI server closes what it was given; a closed generator is empty
        return None
    raise ValueError(op)


def check_digest(r, body, with_md5):
    """ETag (and Content-MD5) after md5_etag are the MD5 of `body`, computed here with hashlib."""
    d = base64.b64encode(hashlib.md5(body).digest()).decode("ascii")
    et = [v for k, v in r.headerlist if k.lower() == "etag"]
    if et != ['"%s"' % d.strip("=")]:
        return ("md5_etag:etag", "ETag headers %r, MD5 of the body gives %r" % (et, d.strip("=")))
    if with_md5 and [v for k, v in r.headerlist if k.lower() == "content-md5"] != [d]:
        return ("md5_etag:content-md5", "Content-MD5 is not %r: %r" % (d, r.headerlist))
    return None


def check_call(ref, pre, method, calls, chunks, base):
    """The WSGI-level statement: one start_response(status, headers), exact body (nothing for HEAD),
    truthful Content-Length."""
    if len(calls) != 1:
        return ("wsgi:start-response-count", "start_response was called %d times" % len(calls))
    status, headers = calls[0]
    headers = [tuple(h) for h in headers]
    if type(status) is not str or any(type(k) is not str or type(v) is not str for k, v in headers):
        return ("wsgi:non-native-string", "status/headers are not native strings: %r %r" % (status, headers))
    if status != pre["status"]:
        return ("wsgi:status", "start_response got %r, response.status is %r" % (status, pre["status"]))
    want = expected_headers(pre["headerlist"], base)
    if headers != want:
        return ("wsgi:headers", "start_response got %r, response.headerlist is %r" % (headers, want))
    if any(type(c) is not bytes for c in chunks):
        return ("wsgi:non-bytes-chunk", "yielded %r" % (chunks,))
    data = b"".join(chunks)
    if method == "HEAD":
        if chunks:
            return ("head:yields", "HEAD yielded %r" % (chunks,))
        return None
    m = seg_match(ref.segs, data)
    if m:
        return ("wsgi:body", "yielded bytes differ from the response body: " + m)
    for k, v in headers:
        if ref.raw:
            break
        if k.lower() == "content-length" and v != str(len(data)):
            return ("content-length:untruthful", "Content-Length: %s but %d bytes were yielded" % (v, len(data)))
    return None


def pre_state(r):
    ce = None
    for k, v in r.headerlist:
        if k.lower() == "content-encoding":
            ce = v
            break
    cs = fw.catch(lambda: r.charset)
    return {"status": r.status, "headerlist": [tuple(h) for h in r.headerlist],
            "charset": None if isinstance(cs, Err) else cs, "content_encoding": ce,
            "benc": r.default_body_encoding, "uerr": r.unicode_errors}


KEY_CTOR_ARG = "ctor:text-in-charset-argument-not-announced"


def run_prefix(case, n, lenient_ctor=False):
    """Replay the first n ops on a fresh object against the reference.
    Returns ("fail", key, text) | ("skip",) | ("ok", response, ref).
    lenient_ctor: the KEY_CTOR_ARG deviation of the constructor has been recorded already; go on from what it stored."""
    r = build(case)
    c = case["ctor"]
    if isinstance(r, Err):
        return ("skip",)
    if c.get("status_alias") and nobody_status(r.status):
        own = [tuple(h) for h in c.get("headerlist", [])]
        if c.get("content_length") is not None:
            own = [h for h in own if h[0].lower() != "content-length"] + [("Content-Length", str(c["content_length"]))]
        if [tuple(h) for h in r.headerlist] != own or ("app_iter" not in c and b"".join(r.app_iter) != b""):
            return ("fail", "nobody-status:status_int-keyword",
                    "Response(%s=%r, ...) is created as %r with headers %r and body %r; status=%r gives no header and no body"
                    % (c["status_alias"], c["status"], r.status, r.headerlist,
                       b"".join(r.app_iter) if isinstance(r.app_iter, list) else "<app_iter>", c["status"]))
    if "app_iter" in c:
        ref = Ref([("raw", b"".join(bytes.fromhex(x) for x in c["app_iter"][1]))], c["app_iter"][0])
    else:
        nobody = nobody_status(r.status)
        if nobody is None:
            # malformed status line: whether it carries the body is outside the statement; take what was created
            b = b"".join(r.app_iter)
        elif nobody:
            b = b""
        elif "body" in c:
            b = bytes.fromhex(c["body"])
        elif "json" in c:
            b = json.dumps(c["json"], separators=(",", ":")).encode("utf-8")
        elif "text" in c:
            # the bytes are the text in the charset the created response announces (Content-Type), or in
            # default_body_encoding when it announces none: that is what .text and every client will decode with
            got = r.app_iter[0] if isinstance(r.app_iter, list) and len(r.app_iter) == 1 else None
            announced = fw.catch(lambda: r.charset)
            dec = (announced if isinstance(announced, str) and announced else None) or r.default_body_encoding
            want = fw.catch(c["text"].encode, dec) if dec else Err("no encoding")
            if got != want:
                kw = c.get("charset")
                what = "text body %r given to the constructor is stored as %r; the response announces charset %r, " \
                       "in which (else default_body_encoding %r) the text is %r" % (c["text"], got, announced, r.default_body_encoding, want)
                if not (isinstance(announced, str) and announced) and isinstance(kw, str) and kw and got == fw.catch(c["text"].encode, kw):
                    # documented: the charset= argument encodes the body even when it never reaches the Content-Type
                    if not lenient_ctor:
                        return ("fail", KEY_CTOR_ARG, what)
                else:
                    return ("fail", "ctor:text-not-in-announced-charset:" +
                            ("headerlist-given" if "headerlist" in c else "no-headerlist"), what)
            b = got
        else:
            b = b""
        ref = Ref([("raw", b)], "list")
    if c.get("content_length") is not None:
        ref.raw = True
    if any(k.lower() == "content-length" for k, _ in c.get("headerlist", [])) and \
            ("app_iter" in c or nobody_status(r.status) is not False):
        ref.raw = True       # kept as given by the constructor: the caller's own
    others = []
    for i, op in enumerate(case["ops"][:n]):
        pre = pre_state(r)
        try:
            r, res, other = apply_op(r, op)
        except AssertionError as e:
            if ref.raw:
                return ("skip",)     # reading a body whose hand-written Content-Length is wrong: refused, allowed
            return ("fail", "content-length:assertion-in-" + op[0], "step %d %r: %s" % (i, op, e))
        m = ref_step(ref, r, op, res, pre)
        if m:
            if m[0] == "skip":
                return ("skip",)
            return ("fail", m[0], "step %d: %s" % (i, m[1]))
        if other is not None:
            # the response not followed after copy() must hold the same thing -- and still hold it, untouched by
            # whatever is done to the followed one, at the end of the history
            others.append((other, ref.clone(), i, op))
    for other, oref, i, op in others:
        m = finish(other, oref, "READ")
        if m:
            return ("fail", "copy:" + m[0], "the %s of step %d %r, at the end of the history: %s"
                    % ("original" if op[1] else "copy", i, op, m[1]))
    return ("ok", r, ref)


def finish(r, ref, how):
    """End of a history: what a server sees (GET / HEAD) or what the application reads then a server sees."""
    try:
        if how in ("GET", "HEAD"):
            pre = pre_state(r)
            calls, chunks, problems = wsgi_call(r, how)
            if problems:
                return ("wsgi:protocol", "; ".join(problems))
            return check_call(ref, pre, how, calls, chunks, BASE_URL)
        # READ: .body / .text / content_length, then the same bytes through Request.call_application
        from webob import Request
        body = r.body
        m = seg_match(ref.segs, body)
        if m:
            return ("readback:body", ".body: " + m)
        cl = [v for k, v in r.headerlist if k.lower() == "content-length"]
        if not ref.raw and any(v != str(len(body)) for v in cl):
            return ("content-length:untruthful-after-read", "Content-Length %r after reading a %d-byte body" % (cl, len(body)))
        if r.body != body:
            return ("readback:body-unstable", "second .body read differs")
        conc = seg_concrete(ref.segs)
        cs = fw.catch(lambda: r.charset)
        if conc is not None and not isinstance(cs, Err):
            enc = cs or r.default_body_encoding
            try:
                want = conc.decode(enc, r.unicode_errors) if enc else None
            except (LookupError, UnicodeError):
                want = None
            got = fw.catch(lambda: r.text)
            if want is None:
                if not isinstance(got, Err):
                    return ("readback:text", ".text gave %r for undecodable body %r" % (got, conc))
            elif got != want:
                return ("readback:text", ".text gave %r, body %r decodes (%s) to %r" % (got, conc, enc, want))
        pre = pre_state(r)
        # a second and a third request environ (scheme, port, script name differ from the strict harness's)
        if len(r.headerlist) % 2:
            req, base = Request.blank("/"), "http://localhost/"
        else:
            req, base = Request.blank("/a/b?x=1", base_url="https://example.org:8443/s"), "https://example.org:8443/s/a/b"
        status, headers, app_iter = req.call_application(r)
        try:
            chunks = list(app_iter)
        finally:
            if hasattr(app_iter, "close"):
                app_iter.close()
        ref2 = Ref(ref.segs, "list", ref.raw)
        return check_call(ref2, pre, "GET", [(status, headers)], chunks, base)
    except AssertionError as e:
        if ref.raw:
            return None      # webob refuses to join a body whose hand-written Content-Length is wrong: allowed
        return ("content-length:assertion-at-" + how, str(e))


def oracle_history(case):
    """None, or (key, text, minimal failing case)."""
    n = len(case["ops"])
    first = None        # the constructor deviation KEY_CTOR_ARG is recorded once; the rest of the history is still checked
    for k in range(0, n + 1):
        for how in ("GET", "HEAD", "READ"):
            out = run_prefix(case, k, first is not None)
            if out[0] == "fail" and out[1] == KEY_CTOR_ARG and first is None:
                first = (out[1], out[2], dict(case, ops=[], finish="GET"))
                out = run_prefix(case, k, True)
            if out[0] == "skip":
                break
            sub = dict(case, ops=case["ops"][:k], finish=how)
            if out[0] == "fail":
                return (out[1], out[2], sub)
            m = finish(out[1], out[2], how)
            if m:
                return (m[0], "after %d steps, finish=%s: %s" % (k, how, m[1]), sub)
        else:
            continue
        break
    return first


def oracle_ctor(case):
    """Constructor statement: 1xx/204/205/304 are created without body or Content-Type; the others carry
    the body given with a truthful Content-Length."""
    r = build(case)
    c = case["ctor"]
    if isinstance(r, Err):
        if "body" in c and "app_iter" in c:
            return None if r.name == "TypeError" else ("ctor:body-and-app_iter", "raised %s, not TypeError" % r.name, case)
        if r.name in ("TypeError", "LookupError", "UnicodeEncodeError", "UnicodeDecodeError", "UnicodeError", "ValueError",
                      "KeyError") and ("text" in c or "status" in c):
            return None      # a text body that cannot be encoded / an unusable status: refused, nothing created
        return ("ctor:raises", "constructor raised %s" % r.name, case)
    if "body" in c and "app_iter" in c:
        return ("ctor:body-and-app_iter", "both body and app_iter were accepted", case)
    if c.get("status_alias"):
        out = run_prefix(dict(case, ops=[]), 0)
        if out[0] == "fail":
            return (out[1], out[2], case)
    st = r.status
    nobody = nobody_status(st)
    if nobody:
        hl = [tuple(h) for h in r.headerlist]
        given = [tuple(h) for h in c.get("headerlist", [])]
        if c.get("content_length") is not None:
            given = [h for h in given if h[0].lower() != "content-length"] + [("Content-Length", str(c["content_length"]))]
        if hl != given:
            return ("nobody-status:headers", "status %r created with headers %r" % (st, hl), case)
        if any(k.lower() in ("content-type", "content-length") for k, _ in hl) and "headerlist" not in c \
                and c.get("content_length") is None:
            return ("nobody-status:headers", "status %r created with %r" % (st, hl), case)
        if "app_iter" not in c:
            if r.body != b"":
                return ("nobody-status:body", "status %r created with body %r" % (st, r.body), case)
    m = oracle_history(dict(case, ops=[]))
    return m


# =========================================================================== correspondence
OPEN, CLOSE = 1000, 1001
GZIP_ERRORS = ("BadGzipFile", "EOFError", "error", "OSError")


def canon_bytes(b):
    """bytes -> code points; a gzip member (decided by zlib) becomes OPEN data CLOSE, as in the model."""
    if b[:2] == b"\x1f\x8b":
        d = zlib.decompressobj(31)
        try:
            data = d.decompress(b) + d.flush()
            if d.eof:
                return chr(OPEN) + data.decode("latin-1") + chr(CLOSE) + d.unused_data.decode("latin-1")
        except zlib.error:
            pass
    return b.decode("latin-1")


def canon_chunks(chunks):
    cj = canon_bytes(b"".join(chunks))
    if any(ord(ch) >= 256 for ch in cj):
        return [cj]
    return [c.decode("latin-1") for c in chunks]


def canon_text(t):
    if isinstance(t, str) and t and all(ord(ch) < 256 for ch in t):
        return canon_bytes(t.encode("latin-1"))
    return t


def canon_headers(hl, chunks, md5map):
    """chunks: what the Content-Length is to be judged against (None: unknown, e.g. an unread iterator).
    A truthful Content-Length becomes the symbolic length."""
    actual = fake = None
    if chunks is not None:
        actual = sum(len(c) for c in chunks)
        fake = sum(len(c) for c in canon_chunks(chunks))
    out = []
    for k, v in hl:
        if k.lower() == "content-length" and actual is not None:
            # (a different value is left as it is: it may have been written by hand, and the model never
            # produces it from a truthful length unless it is one)
            v = str(fake) if v == str(actual) else v
        elif v in md5map:
            v = md5map[v]
        out.append([k, v])
    return out


def snapshot(r, md5map):
    ai = r.app_iter
    if isinstance(ai, list):
        return [r.status, canon_headers(r.headerlist, ai, md5map), ["list", canon_chunks(ai)]]
    return [r.status, canon_headers(r.headerlist, None, md5map), ["iter"]]


def impl_run(case):
    """The observation the model's [run] computes, taken from the real object."""
    r = build(case)
    if isinstance(r, Err):
        return r
    md5map = {}
    first = snapshot(r, md5map)
    steps = []
    for op in case["ops"]:
        before = r.app_iter if isinstance(r.app_iter, list) else None
        before = list(before) if before is not None else None
        try:
            r, res, _ = apply_op(r, op)
        except AssertionError:
            res = Err("AssertionError")
        t = op[0]
        if isinstance(res, Err):
            if t in ("decode", "encode") and res.name in GZIP_ERRORS:
                res = Err("GzipError")
        elif t == "get_body":
            res = canon_bytes(res)
        elif t == "get_text":
            res = canon_text(res)
        elif t == "md5_etag":
            body = b"".join(r.app_iter)
            real = base64.b64encode(hashlib.md5(body).digest()).decode("ascii")
            fake = "".join("%d." % ord(ch) for ch in canon_bytes(body)) + "=="
            md5map[real] = fake
            md5map['"%s"' % real.strip("=")] = '"%s"' % fake.strip("=")
        elif t == "md5_etag_of":
            body = bytes.fromhex(op[1])
            real = base64.b64encode(hashlib.md5(body).digest()).decode("ascii")
            fake = "".join("%d." % ord(ch) for ch in canon_bytes(body)) + "=="
            md5map[real] = fake
            md5map['"%s"' % real.strip("=")] = '"%s"' % fake.strip("=")
        elif t == "call":
            calls, chunks = res
            judge = before if before is not None else (chunks if op[1] != "HEAD" else None)
            res = [[[s, canon_headers(hl, judge, md5map)] for s, hl in calls], canon_chunks(chunks)]
        steps.append([res, snapshot(r, md5map)])
    rest = list(r.app_iter)
    return [first, steps, canon_chunks(rest)]


def c_app(kind, chunks):
    cs = clist(cstr(bytes.fromhex(x)) for x in chunks)
    if kind == "list":
        return "(AList %s)" % cs
    if kind in ("tuple", "obj"):
        return "(ATuple %s)" % cs
    return "(AIter %s %s)" % (cbool(kind != "iter"), cs)


def c_status(s):
    if isinstance(s, dict):
        return "(SStr %s)" % cstr(s["bytes"])      # bytes are decoded as ASCII and take the str path
    return "(SInt %s)" % cZ(s) if isinstance(s, int) else "(SStr %s)" % cstr(s)


def c_op(op):
    t = op[0]
    if t == "set_body":
        return "(OSetBody %s)" % cstr(bytes.fromhex(op[1]))
    if t == "set_json":
        return "(OSetBody %s)" % cstr(json.dumps(op[1], separators=(",", ":")).encode("utf-8"))
    if t == "del_body":
        return "ODelBody"
    if t == "set_text":
        return "(OSetText %s)" % cstr(op[1])
    if t == "get_body":
        return "OGetBody"
    if t == "get_text":
        return "OGetText"
    if t in ("write", "fwrite"):
        return "(OWrite %s)" % cstr(bytes.fromhex(op[1]))
    if t == "write_text":
        return "(OWriteText %s)" % cstr(op[1])
    if t == "set_app_iter":
        return "(OSetAppIter %s)" % c_app(op[1], op[2])
    if t == "set_body_file":
        return "(OSetAppIter %s)" % c_app("gen", op[1])
    if t == "del_app_iter":
        return "ODelAppIter"
    if t == "encode":
        return "(OEncode %s %s)" % (cbool(op[1] == "gzip"), cbool(op[2]))
    if t == "decode":
        return "ODecode"
    if t == "md5_etag":
        return "(OMd5Etag %s)" % cbool(op[1])
    if t == "copy":
        return "(OCopy %s)" % cbool(op[1])
    if t == "set_charset":
        return "(OSetCharset %s)" % copt(None if op[1] is None else cstr(op[1]))
    if t == "del_charset":
        return "(OSetCharset None)"
    if t == "set_content_type":
        return "(OSetContentType %s)" % copt(None if op[1] is None else cstr(op[1]))
    if t == "set_status":
        return "(OSetStatus %s)" % c_status(op[1])
    if t == "set_location":
        return "(OSetLocation %s)" % copt(None if op[1] is None else cstr(op[1]))
    if t == "set_cond":
        return "(OSetCond %s)" % cbool(op[1])
    if t == "md5_etag_of":
        return "(OMd5EtagOf %s %s)" % (cstr(bytes.fromhex(op[1])), cbool(op[2]))
    if t == "set_content_length":
        return "(OSetContentLength %s)" % copt(None if op[1] is None else fw.cN(op[1]))
    if t == "call":
        return "(OCall %s)" % cbool(op[1] == "HEAD")
    raise ValueError(op)


def c_case(case):
    ct, cs, cond, benc = CLS_CFG[case["cls"]]
    cfg = "(mkCfg %s %s %s %s)" % (copt(None if ct is None else cstr(ct)), copt(None if cs is None else cstr(cs)), cbool(cond),
                                  copt(None if benc is None else cstr(benc)))
    c = case["ctor"]
    body = "None"
    if "body" in c:
        body = "(Some (BBytes %s))" % cstr(bytes.fromhex(c["body"]))
    elif "text" in c:
        body = "(Some (BText %s))" % cstr(c["text"])
    status = copt(c_status(c["status"]) if "status" in c else None)
    hl = copt(clist(cpair(cstr(k), cstr(v)) for k, v in c["headerlist"]) if "headerlist" in c else None)
    app = copt(c_app(*c["app_iter"]) if "app_iter" in c else None)
    ctype = copt(cstr(c["content_type"]) if c.get("content_type") is not None else None)
    cnd = copt(cbool(c["cond"]) if "cond" in c else None)
    if "charset" not in c:
        chs = "ChMarker"
    elif c["charset"] is None:
        chs = "ChNone"
    else:
        chs = "(ChSome %s)" % cstr(c["charset"])
    args = "(mkArgs %s %s %s %s %s %s %s)" % (body, status, hl, app, ctype, cnd, chs)
    return "(%s, %s, %s)" % (cfg, args, clist(c_op(o) for o in case["ops"]))


def model_case(rng, maxlen):
    """A history inside the modelled domain (no tuple app_iter, tame Location values); writelines is
    expanded into single body_file.write steps so that every step is observed."""
    case = rand_case(rng, maxlen, model_only=True)
    ops = []
    for o in case["ops"]:
        if o[0] == "file_write":
            ops += [["fwrite", x] for x in o[1]]
        elif o[0] == "set_location":
            ops.append([o[0], rng.choice(["/abs/path", "rel", "http://other.example/x", "HTTPS://h/", None, "mailto:a@b", "/",
                                          "a\r\nX-Injected: 1", "/x\ny"])])
        elif o[0] == "set_content_length" and any(p[0] == "encode" and p[1] == "gzip" for p in ops):
            # once a gzip stream may be in the body, a hand-written length must not be able to coincide with the
            # length of the real stream or of the model's symbolic one (they differ): only 0 / large / None
            ops.append([o[0], rng.choice([0, 1000, 1000, None])])
        else:
            ops.append(o)
    if "content_length" in case["ctor"]:
        # keyword arguments are applied with setattr after construction: the same as a first step
        ops.insert(0, ["set_content_length", case["ctor"].pop("content_length")])
    case["ops"] = ops or [["get_body"]]
    if "content_type" in case["ctor"] and case["ctor"]["content_type"] is None:
        del case["ctor"]["content_type"]
    return case


# =========================================================================== generators
BYTES = ["", "61", "6263", "00", "fffe", "68656c6c6f", "c3a9", "e282ac", "0d0a", "1f8b", "7b7d", "20"]
TEXTS = ["", "abc", "\xe9", "\xfc€", "\U0001f600x", "x\ud800", "a\r\nb", "\xff\x00"]
CHARSETS = ["UTF-8", "utf-8", "utf8", "latin-1", "iso-8859-1", "ascii", "x-nope", ""]
CTYPES = ["text/html", "text/plain", "application/json", "application/xml", "image/svg+xml",
          "application/atom+xml", "text/plain; charset=latin-1", "image/png", "text/xml;charset=ascii", None, ""]
STATUSES = [200, 204, 404, 304, 100, 599, 600, 299, 205, 99, "200 OK", "204 No Content", "404 Not Found",
            "299 Custom", "304", "abc", "101 Switching", "205 Reset Content", " 200 spaced",
            # unusual reason phrases, bytes status lines, malformed lines (tab, leading space, four digits)
            "200 Fine By Me", "204 Custom Reason", "304 x", "199 Odd", "205", "20 4", {"bytes": "200 OK"},
            {"bytes": "204 Nothing"}, {"bytes": "304"}, "204\tTabbed", " 204 lead", "1000 Big", "2040 Long"]
# outside the model's domain (int() accepts them, the model's digit reader does not): oracle only
STATUSES_X = ["\uff12\uff10\uff14 wide digits", "+204 signed", "2_04 underscore", "204\xa0nbsp", {"bytes": "204\xff"}]
LOCATIONS = ["/abs/path", "rel", "http://other.example/x", "HTTPS://h/", "../up", "?q=1", None, "mailto:a@b",
             "a\r\nX-Injected: 1", "/x\ny"]
CHARSETS_X = ["utf-16", "cp1252", "shift_jis", "utf-8-sig", '"utf-8"', " latin-1", "UTF_8", "idna"]
CTYPES_X = ["text/plain; char\u017fet=latin-1", "text/plain; x=\u20ac", "TEXT/HTML", "text/plain;charset=utf-8;charset=latin-1",
            "text/plain; charset=", "application/x; CHARSET=ascii"]
KINDS = ["list", "iter", "gen", "tuple", "obj"]
JSONS = [None, 0, "x", {"a": 1}, [1, "\xe9"], {}]


def rand_bytes(rng):
    if rng.random() < 0.7:
        return rng.choice(BYTES)
    return bytes(rng.randrange(256) for _ in range(rng.randrange(1, 7))).hex()


def rand_chunks(rng, nonempty=False):
    n = rng.choice([0, 1, 1, 2, 2, 3, 4])
    out = [rand_bytes(rng) for _ in range(n)]
    if nonempty:
        out = [c for c in out if c]
    return out


def rand_op(rng, model_only=False):
    kinds = KINDS
    if rng.random() < 0.12:
        # configuration after construction, alternative argument shapes, refused argument types
        t = rng.choice(["set_cond", "md5_etag_of", "md5_etag_of"] +
                       ([] if model_only else ["set_attr", "set_attr", "reassign_app_iter", "bad", "bad"]))
        if t == "set_cond":
            return [t, rng.random() < 0.5]
        if t == "md5_etag_of":
            return [t, rand_bytes(rng), rng.random() < 0.5]
        if t == "set_attr":
            return [t] + rng.choice([["unicode_errors", "replace"], ["unicode_errors", "ignore"], ["unicode_errors", "strict"],
                                     ["default_body_encoding", "latin-1"], ["default_body_encoding", None],
                                     ["default_body_encoding", "UTF-8"], ["default_charset", None],
                                     ["default_charset", "latin-1"], ["default_content_type", "text/plain"]])
        if t == "bad":
            return [t, rng.choice(["body_str", "body_bytearray", "body_none", "text_bytes", "write_int", "status_none"])]
        return [t]
    t = rng.choice(["set_content_length", "set_content_length", "set_body", "set_body", "del_body", "set_text", "set_text", "set_json", "get_body", "get_body",
                    "get_text", "write", "write", "write", "write_text", "file_write", "set_app_iter", "set_app_iter",
                    "set_app_iter", "set_body_file", "del_app_iter", "encode", "encode", "encode", "decode", "decode",
                    "md5_etag", "copy", "copy", "set_charset", "del_charset", "set_content_type", "set_status",
                    "set_location", "call", "call"])
    if t in ("set_body", "write"):
        return [t, rand_bytes(rng)]
    if t in ("set_text", "write_text"):
        return [t, rng.choice(TEXTS)]
    if t == "set_json":
        return [t, rng.choice(JSONS)]
    if t == "file_write":
        return [t, rand_chunks(rng)]
    if t == "set_app_iter":
        return [t, rng.choice(kinds), rand_chunks(rng)]
    if t == "set_body_file":
        return [t, rand_chunks(rng, nonempty=True)]
    if t == "encode":
        return [t, rng.choice(["gzip", "gzip", "gzip", "identity"]), rng.random() < 0.5]
    if t == "md5_etag":
        return [t, rng.random() < 0.5]
    if t == "copy":
        return [t, rng.random() < 0.6]
    if t == "set_charset":
        return [t, rng.choice(CHARSETS + [None] + ([] if model_only else CHARSETS_X))]
    if t == "set_content_type":
        return [t, rng.choice(CTYPES + ([] if model_only else CTYPES_X))]
    if t == "set_status":
        return [t, rng.choice(STATUSES + ([] if model_only else STATUSES_X))]
    if t == "set_location":
        return [t, rng.choice(LOCATIONS)]
    if t == "set_content_length":
        return [t, rng.choice([0, 1, 3, 5, 7, 1000, None] + ([] if model_only else [-1, 10 ** 20]))]
    if t == "call":
        return [t, rng.choice(["GET", "GET", "HEAD", "HEAD", "POST", "OPTIONS"])]
    return [t]


def rand_ctor(rng, model_only=False):
    c = {}
    kinds = KINDS
    if rng.random() < 0.12:
        # the constructor's charset block: text body x content_type x charset= x headerlist
        c["text"] = rng.choice(CT_TEXTS + TEXTS[:3])
        ct = rng.choice(CT_CTYPES)
        chs = rng.choice(CT_CHARSETS)
        hl = rng.choice(CT_HEADERLISTS)
        if model_only:
            ct = None if ct and "utf-16" in ct else ct
            chs = "latin-1" if chs == "utf-16" else chs
            hl = None if hl and any("utf-16" in v for _, v in hl) else hl
        if ct is not None:
            c["content_type"] = ct
        if chs != "marker":
            c["charset"] = chs
        if hl is not None:
            c["headerlist"] = [list(h) for h in hl]
        if rng.random() < 0.2:
            c["status"] = rng.choice([200, 404, "299 Custom", 204])
        return c
    x = rng.random()
    if x < 0.3:
        c["body"] = rand_bytes(rng)
    elif x < 0.45:
        c["text"] = rng.choice(TEXTS)
    elif x < 0.7:
        c["app_iter"] = [rng.choice(kinds), rand_chunks(rng)]
    elif x < 0.75 and not model_only:
        c["json"] = rng.choice(JSONS)
        if rng.random() < 0.5:
            c["json_alias"] = True                       # json= instead of json_body=
    elif x < 0.77 and not model_only:
        c["body"], c["app_iter"] = rand_bytes(rng), ["list", []]     # both: refused with TypeError
    if rng.random() < 0.35:
        c["status"] = rng.choice(STATUSES + ([] if model_only else STATUSES_X))
        if isinstance(c["status"], int) and rng.random() < 0.4:
            c["status_alias"] = rng.choice(["status_int", "status_code"])
    if rng.random() < 0.25:
        hl = []
        for _ in range(rng.randrange(0, 3)):
            hl.append(rng.choice([["X-A", "1"], ["Content-Type", "text/plain; charset=latin-1"],
                                  ["content-type", "application/json"], ["Location", "/there"], ["location", "rel"],
                                  ["ETag", '"e"']]))
        # a Content-Length in the caller's own header list: replaced by the constructor when it builds the body
        # itself, otherwise a hand-written one (the reference treats it like r.content_length = n)
        if rng.random() < 0.5:
            hl.append([rng.choice(["Content-Length", "content-length", "CONTENT-LENGTH"]),
                       rng.choice(["7", "0", "12"] + ([] if model_only else ["-5", " 7 ", "+3", "1_0"]))])
        c["headerlist"] = hl
    if rng.random() < 0.3:
        c["content_type"] = rng.choice(CTYPES + ([] if model_only else CTYPES_X))
    if rng.random() < 0.3:
        c["charset"] = rng.choice(CHARSETS[:6] + [None] + ([] if model_only else CHARSETS_X[:4]))
    if rng.random() < 0.15:
        c["cond"] = rng.random() < 0.5
    if rng.random() < 0.2:
        c["content_length"] = rng.choice([0, 2, 3, 7])       # Response(..., content_length=n): set after construction
    return c


def rand_case(rng, maxlen, model_only=False):
    return {"cls": rng.choice(sorted(CLS_CFG) if model_only else ALL_CLS), "ctor": rand_ctor(rng, model_only),
            "ops": [rand_op(rng, model_only) for _ in range(rng.randrange(1, maxlen + 1))]}


# =========================================================================== regenerated table
def gen(ctx):
    """Regenerate coq/Gen/C02_status.v from webob.util of the tree under check."""
    from webob import util
    def tab(d):
        return "[%s]" % ";\n  ".join("(%s, %s)" % (cZ(k), cstr(v)) for k, v in sorted(d.items()))
    problems = []
    for name in ("status_reasons", "status_generic_reasons"):
        d = getattr(util, name, None)
        if not isinstance(d, dict) or not all(isinstance(k, int) and isinstance(v, str) for k, v in d.items()):
            problems.append("webob.util.%s is not an int -> str dict any more" % name)
    if problems:
        return problems
    out = ["(* GENERATED from src/webob/util.py of the tree under check by harness/props/c02.py - do not edit *)",
           "From Coq Require Import ZArith NArith List String.", "Require Import Webob.Lib.Val.",
           "Import ListNotations.", "Local Open Scope string_scope.",
           "Definition status_reasons : list (Z * str) :=\n  %s." % tab(util.status_reasons),
           "Definition status_generic_reasons : list (Z * str) :=\n  %s." % tab(util.status_generic_reasons)]
    fw.write_if_changed(GEN_PATH, "\n".join(out) + "\n")
    return problems


# =========================================================================== the check
MUTATING = {"md5_etag_of", "reassign_app_iter", "set_content_length", "set_body", "del_body", "set_text", "set_json", "write", "fwrite", "write_text", "file_write",
            "set_app_iter", "set_body_file", "del_app_iter", "encode", "decode", "copy", "call", "md5_etag"}
FN = "(fun x => run_fake (fst (fst x)) (snd (fst x)) (snd x))"
IN_TYPE = "(cfg * cargs * list op)"


def small_universe():
    return [
        ["set_body", "6162"], ["set_body", ""], ["del_body"], ["set_text", "\xe9"], ["set_json", {"a": 1}],
        ["get_body"], ["get_text"], ["write", "63"], ["write", ""], ["write_text", "\xfc"], ["file_write", ["64", "", "65"]],
        ["set_app_iter", "list", []], ["set_app_iter", "list", ["61", "", "62"]], ["set_app_iter", "iter", ["61", "62"]],
        ["set_app_iter", "gen", ["", "63"]], ["set_app_iter", "tuple", ["61", "62"]], ["set_app_iter", "list", ["61"]],
        ["set_body_file", ["6162", "63"]], ["del_app_iter"], ["encode", "gzip", True], ["encode", "gzip", False],
        ["encode", "identity", False], ["decode"], ["md5_etag", True], ["copy", True], ["copy", False],
        ["set_charset", "latin-1"], ["set_charset", None], ["set_content_type", "application/json"],
        ["set_status", 204], ["set_location", "/x"], ["call", "GET"], ["call", "HEAD"],
        ["set_content_length", 3], ["set_content_length", None],
        ["set_cond", True], ["md5_etag_of", "6162", True], ["md5_etag_of", "", False], ["call", "POST"], ["call", "OPTIONS"],
        ["set_app_iter", "obj", ["61", "62"]],
    ]


def ctor_sweep(class_names):
    ALIASED = [(s_, a_) for s_ in (204, 304, 100, 205, 404, 200) for a_ in ("status_int", "status_code")]
    for cls in class_names:
        for status in [None] + STATUSES + STATUSES_X + ALIASED:
            for body in (None, ("body", "616263"), ("text", "\xe9"), ("json", {"k": [1]}), ("app_iter", ["gen", ["61", "62"]])):
                for ct in (None, "text/plain", "image/png", "application/xml"):
                    for chs in ("marker", None, "latin-1"):
                        c = {}
                        if isinstance(status, tuple):
                            c["status"], c["status_alias"] = status
                        elif status is not None:
                            c["status"] = status
                        if body is not None:
                            c[body[0]] = body[1]
                        if ct is not None:
                            c["content_type"] = ct
                        if chs != "marker":
                            c["charset"] = chs
                        yield {"cls": cls, "ctor": c, "ops": [], "kind": "ctor"}


CT_TEXTS = ["caf\xe9 \xfcber", "\u20ac", "ascii only"]
CT_CTYPES = [None, "text/plain", "text/plain; charset=latin-1", "text/html;charset=utf-16", "application/xml; charset=ascii",
             "application/foo", "text/plain; charset=utf-8"]
CT_CHARSETS = ["marker", None, "utf-8", "latin-1", "utf-16", "ascii"]
CT_HEADERLISTS = [None, [], [["Content-Type", "text/plain; charset=latin-1"]], [["content-type", "application/foo"]],
                  [["Content-Type", "text/html; charset=UTF-8"], ["content-type", "text/plain; charset=utf-16"]]]


def ctor_text_cases(class_names, model_only=False):
    """Response(body=<str>, ...) in every combination of content_type carrying a charset or not x charset= argument x
    headerlist given or not x class defaults (the configuration space of the constructor's charset block)."""
    for cls in class_names:
        for text in CT_TEXTS:
            for ct in CT_CTYPES:
                for chs in CT_CHARSETS:
                    for hl in CT_HEADERLISTS:
                        if model_only and ("utf-16" in (ct or "") or chs == "utf-16" or any("utf-16" in v for _, v in hl or [])):
                            continue
                        c = {"text": text}
                        if ct is not None:
                            c["content_type"] = ct
                        if chs != "marker":
                            c["charset"] = chs
                        if hl is not None:
                            c["headerlist"] = [list(h) for h in hl]
                        yield {"cls": cls, "ctor": c, "ops": [], "kind": "ctor"}


# histories kept from earlier disagreements / from the property text; run first in every correspondence
CORPUS = [
    {"cls": "base", "ctor": {"app_iter": ["iter", ["61", "", "6263"]]},
     "ops": [["write", "64"], ["encode", "gzip", True], ["copy", True], ["get_body"], ["decode"], ["call", "GET"]]},
    {"cls": "base", "ctor": {"app_iter": ["gen", ["61", "62"]]},
     "ops": [["encode", "gzip", True], ["call", "HEAD"], ["decode"], ["get_body"]]},
    {"cls": "latin", "ctor": {"status": " 200 spaced", "charset": None},
     "ops": [["set_charset", "x-nope"], ["set_json", {}], ["del_body"], ["get_text"], ["call", "GET"], ["encode", "gzip", False]]},
    {"cls": "xml", "ctor": {"charset": "utf-8"},
     "ops": [["encode", "identity", True], ["set_charset", "x-nope"], ["set_text", "x\ud800"], ["get_text"],
             ["set_charset", "ascii"], ["del_app_iter"], ["del_charset"], ["write", "0d0a"], ["set_body_file", ["e282ac"]],
             ["md5_etag", True]]},
    {"cls": "cond", "ctor": {"body": "616263"},
     "ops": [["encode", "gzip", False], ["write", "00"], ["decode"], ["write", "7a"], ["encode", "gzip", True], ["fwrite", "41"],
             ["decode"], ["get_body"]]},
    {"cls": "nodef", "ctor": {"text": "\xe9", "charset": "latin-1", "content_type": "application/x"},
     "ops": [["get_text"], ["set_content_type", "text/plain"], ["get_text"], ["set_text", "\xe9"], ["get_body"]]},
    # a hand-written Content-Length on a non-list body is cleared by the next app_iter / body_file assignment
    {"cls": "base", "ctor": {"app_iter": ["gen", ["61", "62"]]},
     "ops": [["set_content_length", 2], ["set_app_iter", "iter", ["616263", "64"]], ["call", "GET"]]},
    {"cls": "cond", "ctor": {"app_iter": ["tuple", ["6162"]]},
     "ops": [["set_content_length", 7], ["set_body_file", ["68656c6c6f"]], ["call", "HEAD"], ["call", "GET"]]},
    {"cls": "latin", "ctor": {"app_iter": ["iter", ["61"]]},
     "ops": [["set_content_length", 1], ["set_app_iter", "tuple", ["6162", "", "63"]], ["write", "64"], ["copy", True], ["get_body"]]},
    {"cls": "base", "ctor": {},
     "ops": [["set_body_file", ["6162"]], ["set_content_length", 2], ["set_body_file", ["616263"]], ["encode", "gzip", True], ["call", "GET"]]},
    {"cls": "json", "ctor": {"status": 304, "body": "6162", "content_type": "text/plain"},
     "ops": [["write", "63"], ["get_body"], ["set_status", 200], ["call", "HEAD"], ["call", "GET"]]},
]


# histories with steps outside the model (instance-level configuration, refused argument types): oracle only
ORACLE_CORPUS = [
    {"cls": "base", "ctor": {"content_type": "application/x"},
     "ops": [["set_attr", "default_body_encoding", "latin-1"], ["set_text", "\xe9"], ["get_text"], ["get_body"], ["copy", True], ["get_text"]]},
    {"cls": "base", "ctor": {"body": "fffe"},
     "ops": [["set_attr", "unicode_errors", "replace"], ["get_text"], ["set_attr", "unicode_errors", "ignore"], ["get_text"]]},
    {"cls": "lenient", "ctor": {"app_iter": ["obj", ["ff", "61"]]}, "ops": [["get_text"], ["call", "OPTIONS"], ["reassign_app_iter"], ["call", "HEAD"]]},
    {"cls": "noenc", "ctor": {}, "ops": [["set_text", "x"], ["get_text"], ["bad", "text_bytes"], ["set_charset", "utf-16"], ["set_content_type", "text/plain"],
                                         ["set_charset", "utf-16"], ["set_text", "\u20ac"], ["get_text"], ["write_text", "x"], ["get_text"]]},
    {"cls": "base", "ctor": {"status": {"bytes": "204 Nothing"}, "body": "6162"},
     "ops": [["bad", "body_str"], ["bad", "write_int"], ["set_status", "\uff12\uff10\uff10 wide"], ["call", "GET"]]},
    {"cls": "ignore", "ctor": {"text": "abc", "charset": "latin-1"},
     "ops": [["set_attr", "default_charset", None], ["set_content_type", "text/plain"], ["get_text"], ["md5_etag_of", "", True], ["md5_etag", False]]},
]


def nontrivial(case):
    return any(o[0] in MUTATING for o in case["ops"])


# what coq/Model/C02_RespBody.v mirrors by hand (each Gallina definition's comment names its Python counterpart)
MODELLED = [
    # class-level configuration (values), constructor, copy, status
    "webob.response:Response.default_content_type", "webob.response:Response.default_charset",
    "webob.response:Response.default_conditional_response", "webob.response:Response.default_body_encoding",
    "webob.response:Response.__init__", "webob.response:Response.copy",
    "webob.response:Response._status__get", "webob.response:Response._status__set",
    "webob.response:Response._status_code__set",
    # body / json / text
    "webob.response:Response._body__get", "webob.response:Response._body__set",
    "webob.response:Response._json_body__set", "webob.response:Response._json_body__del",
    "webob.response:Response._text__get", "webob.response:Response._text__set", "webob.response:Response._text__del",
    # write, the file-like view, body_file assignment
    "webob.response:Response.write", "webob.response:Response._body_file__get", "webob.response:Response._body_file__set",
    "webob.response:ResponseBodyFile.__init__", "webob.response:ResponseBodyFile.writelines", "webob.response:iter_file",
    # app_iter
    "webob.response:Response._app_iter__get", "webob.response:Response._app_iter__set",
    "webob.response:Response._app_iter__del", "webob.response:iter_close",
    # typed header attributes the body machinery goes through
    "webob.response:Response.content_length", "webob.response:Response.content_encoding",
    "webob.response:Response.content_md5", "webob.response:Response._etag_raw", "webob.response:Response.etag",
    "webob.response:Response.location",
    "webob.descriptors:header_getter", "webob.descriptors:converter", "webob.descriptors:parse_int",
    "webob.descriptors:parse_int_safe", "webob.descriptors:serialize_int", "webob.descriptors:serialize_etag_response",
    "webob.descriptors:_rx_etag",
    # charset / content_type
    "webob.descriptors:CHARSET_RE", "webob.response:Response._charset__get", "webob.response:Response._charset__set",
    "webob.response:Response._charset__del", "webob.response:Response._content_type__set",
    "webob.response:Response._content_type__del", "webob.response:_is_xml", "webob.response:_content_type_has_charset",
    # encode / decode / md5
    "webob.response:Response.encode_content", "webob.response:Response.decode_content", "webob.response:Response.md5_etag",
    # WSGI call
    "webob.descriptors:SCHEME_RE", "webob.response:Response._make_location_absolute",
    "webob.response:Response._abs_headerlist", "webob.response:Response.__call__",
    "webob.response:Response.conditional_response_app", "webob.response:EmptyResponse",
    # Response.headers view as used by charset / content_type
    "webob.response:Response._headers__get", "webob.headers:ResponseHeaders.__getitem__",
    "webob.headers:ResponseHeaders.__setitem__", "webob.headers:ResponseHeaders.pop",
]
# translated into coq/Gen/C02_status.v by gen(ctx)
REGENERATED = ["webob.util:status_reasons", "webob.util:status_generic_reasons"]
# parameters of the model (gzip stream, request URI for urljoin) and glue only the oracle drives
ORACLE_ONLY = [
    "webob.response:Response.unicode_errors",
    "webob.response:gzip_app_iter", "webob.response:_gzip_header", "webob.response:_request_uri",
    "webob.response:Response._json_body__get", "webob.response:Response._has_body__get",
    "webob.request:BaseRequest.call_application",
]


def run(ctx):
    ctx.modelled(MODELLED)
    ctx.extra["regenerated_from_source"] = REGENERATED
    ctx.extra["oracle_only"] = ORACLE_ONLY
    problems = gen(ctx)
    for p in problems:
        ctx.broken.append("regeneration of Gen/C02_status.v: " + p)
    ctx.build(["Props/C02.vo"])
    classes()

    # ---- correspondence: the Gallina model against real Response objects, step by step
    def correspond(name, cases):
        triples = [(c_case(case), impl_run(case), case) for case in cases]
        bad = ctx.corr(name, IMPORTS, FN, triples, in_type=IN_TYPE)
        for i in bad[:6]:
            case = triples[i][2]
            m = fw.catch(oracle_history, case)
            if isinstance(m, Err):
                m = None
            if m:
                ctx.fail(m[0], m[1], m[2], True, "corr")
            else:
                ctx.broken.append("correspondence %s: model and implementation disagree on %s" % (name, json.dumps(case)))
        return triples

    rng = ctx.sub_rng("corr")
    hist = [json.loads(json.dumps(c_)) for c_ in CORPUS]
    hist += [model_case(rng, ctx.scale(8, 12)) for _ in range(ctx.scale(600, 6000))]
    correspond("history", hist)
    ctors = []
    for _ in range(ctx.scale(150, 3000)):
        case = model_case(rng, 1)
        case["ops"] = []
        ctors.append(case)
    correspond("constructor", ctors)
    # the constructor's charset block: text body x content_type (with / without charset) x charset= x headerlist x class
    ctext = list(ctor_text_cases(sorted(CLS_CFG), model_only=True))
    if not ctx.thorough:
        ctext = ctx.sub_rng("corr-ctor-text").sample(ctext, 250)
    correspond("constructor-text", ctext)
    if ctx.thorough:
        # every history of depth <= 2 over the modelled part of the small universe, two starting points
        U = [o for o in small_universe() if o[0] != "file_write"]
        ex = []
        for ctor in ({}, {"app_iter": ["iter", ["61", "", "6263"]]}):
            for d in (1, 2):
                for ops in itertools.product(U, repeat=d):
                    ex.append({"cls": "base", "ctor": ctor, "ops": [list(o) for o in ops]})
        correspond("exhaustive-depth2", ex)
    hist_ops = {}
    for case in hist:
        for o in case["ops"]:
            hist_ops[o[0]] = hist_ops.get(o[0], 0) + 1
    ctx.extra["op_histogram"] = dict(sorted(hist_ops.items()))
    ctx.extra["class_histogram"] = {k: sum(1 for c_ in hist if c_["cls"] == k) for k in sorted(CLS_CFG)}

    # ---- oracle: the statement itself on the real implementation
    def sweep(name, cases):
        n = nt = 0
        for case in cases:
            n += 1
            nt += 1 if (nontrivial(case) or case.get("kind") == "ctor") else 0
            try:
                m = oracle_ctor(case) if case.get("kind") == "ctor" else oracle_history(case)
            except Exception as e:  # noqa
                ctx.broken.append("oracle %s raised %s on %s" % (name, type(e).__name__, json.dumps(case)[:600]))
                continue
            if m:
                ctx.fail(m[0], m[1], m[2], True, name)
        ctx.oracle_count(name, n, nt)

    r2 = ctx.sub_rng("oracle")
    sweep("corpus", (json.loads(json.dumps(c_)) for c_ in CORPUS + ORACLE_CORPUS))
    sweep("random-histories", (rand_case(r2, ctx.scale(8, 12)) for _ in range(ctx.scale(2500, 40000))))
    U = small_universe()
    depth = ctx.scale(2, 3)

    def small():
        starts = [("base", {}), ("cond", {"app_iter": ["gen", ["61", "", "6263"]]})]
        if ctx.thorough:
            starts += [("latin", {"text": "\xe9"}), ("nodef", {"app_iter": ["list", []]})]
        for cls, ctor in starts:
            for d in range(1, depth + 1):
                if d == 3 and (cls, ctor) != starts[0]:
                    continue
                for ops in itertools.product(U, repeat=d):
                    yield {"cls": cls, "ctor": ctor, "ops": [list(o) for o in ops]}
    sweep("exhaustive-small", small())
    sweep("constructor", ctor_sweep(ALL_CLS if ctx.thorough else ["base", "benc", "lenient"]))
    sweep("constructor-text", ctor_text_cases(ALL_CLS if ctx.thorough else ["base", "latin", "nodef", "ctcs", "ctcs2", "lenient"]))
    r3 = ctx.sub_rng("oracle-ctor")
    sweep("constructor-random", ({"cls": r3.choice(ALL_CLS), "ctor": rand_ctor(r3), "ops": [], "kind": "ctor"}
                                 for _ in range(ctx.scale(1000, 20000))))

    ctx.extra["rule"] = (
        "correspondence: random constructor arguments x operation histories (<= %d steps over 24 operation kinds, 10 classes, "
        "list / tuple / iterator / generator / file bodies, empty chunks) compared step by step (result or exception class, status, "
        "header list, app_iter type and chunks, final drain) between the Gallina model and real Response objects; counted "
        "distinct by Coq literal.  oracle: every prefix of every history finished by GET, HEAD and read+call_application and "
        "compared with the reference written from the statement; a case is non-trivial when it contains at least one "
        "body-mutating / encoding / copy / call step (or is a constructor case)" % ctx.scale(8, 12))
    ctx.extra["exhaustive"] = False
    ctx.assume += [
        "gzip: gunzip(b''.join(gzip_app_iter(chunks))) == b''.join(chunks) (zlib); the model runs with a symbolic gzip and "
        "real streams are compared through zlib only",
        "md5/base64 and urljoin are parameters of the model; Location values in the correspondence are plain paths or absolute URLs",
        "the request carries no If-*/Range header (conditional responses are C06); the WSGI server iterates the result to "
        "exhaustion and calls close()",
        "a Content-Length written by hand (content_length = n, content_length=, or kept from the caller's header list) is "
        "the caller's until the next body-replacing mutation (body / app_iter / body_file / del / encode / successful text): "
        "truthfulness is checked again from there on",
        "charsets: utf-8, latin-1, ascii (and unknown names); int() on status / Content-Length text only for plain ASCII digits",
    ]
    ctx.trusted += [
        "zlib / gzip / hashlib.md5 / base64 / json / urllib.parse.urljoin (parameters of the model; the oracle uses them as reference)",
        "harness canonicalisation of gzip streams, digests and truthful Content-Length values to the model's symbolic forms",
    ]


def replay(ctx, path):
    data = json.load(open(path))
    case = data["case"]
    if not isinstance(case, dict) or "ctor" not in case:
        print("replay: nothing executable in this file (broken obligation): %s" % data.get("what"))
        return 1
    classes()
    m = oracle_ctor(case) if case.get("kind") == "ctor" else oracle_history(case)
    if m:
        print("VIOLATION property=C02 replay=%s" % path)
        print("  (%s) %s" % (m[0], m[1]))
        return 1
    print("replay passes on the current tree")
    return 0
