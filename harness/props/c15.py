"""C15 — Cookie jar edits (request.cookies, Set-Cookie list) leave other cookies intact.

Tie to the source (see design_notes/C15.md):
  * gen(ctx) regenerates coq/Gen/C15_tables.v from the live webob.cookies module of $WEBOB_REPO (alphabets,
    escape tables, unquote tables, _c_keys/_c_renames, SameSite literals) and checks with CPython's own
    re._parser that _rx_cookie / _rx_unquote still have the structure the hand scanner mirrors (fail-closed);
  * correspondence of the Gallina models (scanner with spans, RequestCookies histories, Response cookie
    histories) with the real classes on generated inputs, step by step;
  * the property oracle: reference dict / reference list of Set-Cookie lines against the public API.
"""
import datetime
import itertools
import json
import os
import re
import warnings

from harness import fw
from harness.fw import Err, catch, cstr, clist, cpair, copt, cbool, cZ

IMPORTS = ["Webob.Lib.PyStr", "Webob.Lib.C15_Utf8", "Webob.Gen.C15_tables", "Webob.Model.C15_Scan",
           "Webob.Model.C15_CookieJar", "Webob.Spec.C15_JarSpec"]
GEN_PATH = os.path.join(fw.COQ, "Gen", "C15_tables.v")

WS = frozenset([9, 10, 11, 12, 13, 32])
DIGIT = frozenset(range(48, 58))
WORD = frozenset(list(range(48, 58)) + list(range(65, 91)) + list(range(97, 123)) + [95])


def C():
    from webob import cookies
    return cookies


# =========================================================================== gen: tables + regex structure
def _norm(items):
    """CPython re parse tree -> canonical nested tuples; classes become frozensets of octets."""
    import re._constants as sc
    out = []
    for op, a in items:
        if op == sc.LITERAL:
            out.append(("cls", frozenset([a])))
        elif op == sc.NOT_LITERAL:
            out.append(("cls", frozenset(range(256)) - {a}))
        elif op == sc.IN:
            out.append(("cls", _class(a)))
        elif op == sc.ANY:
            out.append(("any",))
        elif op in (sc.MAX_REPEAT, sc.MIN_REPEAT):
            lo, hi, sub = a
            out.append(("rep", lo, None if hi == sc.MAXREPEAT else hi, op == sc.MAX_REPEAT, _norm(sub)))
        elif op == sc.SUBPATTERN:
            grp, add, dele, sub = a
            if add or dele:
                raise ValueError("inline flags in group")
            if grp is None:
                out.extend(_norm(sub))
            else:
                out.append(("grp", grp, _norm(sub)))
        elif op == sc.BRANCH:
            out.append(("alt", tuple(_norm(x) for x in a[1])))
        else:
            raise ValueError("construct %s outside the modelled subset" % (op,))
    return tuple(out)


def _class(items):
    import re._constants as sc
    neg = False
    s = set()
    for op, a in items:
        if op == sc.NEGATE:
            neg = True
        elif op == sc.LITERAL:
            s.add(a)
        elif op == sc.RANGE:
            s.update(range(a[0], a[1] + 1))
        elif op == sc.CATEGORY:
            pat = {sc.CATEGORY_DIGIT: rb"\d", sc.CATEGORY_SPACE: rb"\s", sc.CATEGORY_WORD: rb"\w",
                   sc.CATEGORY_NOT_DIGIT: rb"\D", sc.CATEGORY_NOT_SPACE: rb"\S", sc.CATEGORY_NOT_WORD: rb"\W"}[a]
            rx = re.compile(pat)
            s.update(b for b in range(256) if rx.fullmatch(bytes([b])))
        else:
            raise ValueError("class item %s" % (op,))
    return frozenset(range(256)) - s if neg else frozenset(s)


def _lit(c):
    return ("cls", frozenset([ord(c)]))


def _expected_cookie_rx(legal):
    L = ("cls", legal)
    ws = ("cls", WS)
    oct3 = (("cls", frozenset(range(48, 52))), ("cls", frozenset(range(48, 56))), ("cls", frozenset(range(48, 56))))
    quoted = (_lit('"'), ("rep", 0, None, False, (("alt", ((_lit("\\"), _lit('"')), (("any",),))),)), _lit('"'))
    expires = (("rep", 3, 3, True, (("cls", WORD),)), _lit(","), ws,
               ("rep", 9, 11, True, (("cls", WORD | {45}),)), ws,
               ("rep", 8, 8, True, (("cls", DIGIT | {58}),)), ws, _lit("G"), _lit("M"), _lit("T"))
    unquoted = (("rep", 0, None, True, (("alt", ((L,), (_lit("\\"), ("alt", (oct3, (("any",),)))))),)),)
    return (("grp", 1, (("rep", 1, None, False, (L,)),)),
            ("rep", 0, None, True, (ws,)), _lit("="), ("rep", 0, None, True, (ws,)),
            ("grp", 2, (("alt", (quoted, expires, unquoted)),)))


def _expected_unquote_rx():
    oct3 = (("cls", frozenset(range(48, 52))), ("cls", frozenset(range(48, 56))), ("cls", frozenset(range(48, 56))))
    return (_lit("\\"), ("grp", 1, (("alt", (oct3, (("any",),))),)))


def read_tables():
    """Everything the model takes from the source, as Python values; `problems` lists broken ties."""
    import ast
    import re._parser as sp
    ck = C()
    problems = []
    t = {}
    t["allowed"] = sorted(set(ck._allowed_cookie_bytes))
    t["token"] = sorted(set(ck._valid_token_bytes))
    em = ck._escape_map
    if sorted(em) != list(range(256)):
        problems.append("_escape_map does not have exactly the keys 0..255")
    t["escape"] = [bytes(em.get(i, b"")) for i in range(256)]
    pe = []
    for i in range(256):
        r = catch(ck._path_quote, bytes([i]))
        pe.append(r if isinstance(r, bytes) else b"")
        if not isinstance(r, bytes):
            problems.append("_path_quote raises on octet %d" % i)
    t["path_escape"] = pe
    legal = None
    try:
        if not isinstance(ck._rx_cookie.pattern, bytes) or ck._rx_cookie.flags != 0:
            raise ValueError("_rx_cookie is not a flag-less bytes pattern")
        tree = _norm(sp.parse(ck._rx_cookie.pattern, ck._rx_cookie.flags))
        key = tree[0]
        if key[0] != "grp" or key[2][0][0] != "rep" or key[2][0][4][0][0] != "cls":
            raise ValueError("key group has unexpected shape")
        legal = key[2][0][4][0][1]
        if tree != _expected_cookie_rx(legal):
            raise ValueError("pattern %r does not have the structure of the modelled scanner" % ck._rx_cookie.pattern)
    except Exception as e:  # fail closed
        problems.append("translator: _rx_cookie: %s" % e)
        if legal is None:
            legal = frozenset(b for b in range(256)
                              if (lambda m: m and m.group(1) == bytes([b]) + b"a")(ck._rx_cookie.match(bytes([b]) + b"a=x")))
    t["legal"] = sorted(legal)
    try:
        if not isinstance(ck._rx_unquote.pattern, bytes) or ck._rx_unquote.flags != 0:
            raise ValueError("_rx_unquote is not a flag-less bytes pattern")
        if _norm(sp.parse(ck._rx_unquote.pattern, ck._rx_unquote.flags)) != _expected_unquote_rx():
            raise ValueError("pattern %r does not have the modelled structure" % ck._rx_unquote.pattern)
    except Exception as e:
        problems.append("translator: _rx_unquote: %s" % e)
    um = ck._ch_unquote_map
    want_keys = {b"%03o" % i for i in range(256)} | {bytes([i]) for i in range(256)}
    if set(um) != want_keys or any(not isinstance(v, bytes) or len(v) != 1 for v in um.values()):
        problems.append("_ch_unquote_map does not map exactly the 256 octal triples and 256 single octets to single octets")
    t["unq_oct"] = [(um.get(b"%03o" % i) or b"\0")[0] for i in range(256)]
    t["unq_single"] = [(um.get(bytes([i])) or b"\0")[0] for i in range(256)]
    t["c_keys"] = sorted(ck._c_keys)
    ren = []
    for k in ck._c_valkeys:
        info = ck._c_renames[k]
        q = info["quoter"]
        if q is ck._value_quote:
            tag = "true"
        elif q is ck._path_quote:
            tag = "false"
        else:
            problems.append("quoter of %r is neither _value_quote nor _path_quote" % k)
            tag = "false"
        ren.append((k, info["name"], tag))
    t["renames"] = ren
    if list(ck._c_valkeys) != sorted(ck._c_renames):
        problems.append("_c_valkeys is not sorted(_c_renames)")
    vals = None
    try:
        src = open(ck.__file__.replace(".pyc", ".py")).read()
        for node in ast.walk(ast.parse(src)):
            if isinstance(node, ast.FunctionDef) and node.name == "serialize_samesite":
                for n2 in ast.walk(node):
                    if isinstance(n2, ast.Compare) and len(n2.ops) == 1 and isinstance(n2.ops[0], ast.NotIn) \
                            and isinstance(n2.comparators[0], (ast.Tuple, ast.List, ast.Set)):
                        vals = [e.value for e in n2.comparators[0].elts]
        if vals is None or not all(isinstance(v, bytes) for v in vals):
            raise ValueError("no `not in (<bytes literals>)` test found")
    except Exception as e:
        problems.append("translator: serialize_samesite: %s" % e)
        vals = [b"strict", b"lax", b"none"]
    t["samesite"] = vals
    return t, problems


def _nlist(xs):
    return "[%s]" % "; ".join(str(x) for x in xs)


def _h(b):
    return '(H "%s"%%string)' % bytes(b).hex() if b else "(@nil N)"


def gen(ctx):
    """Regenerate coq/Gen/C15_tables.v from $WEBOB_REPO/src/webob/cookies.py."""
    t, problems = read_tables()
    out = ["(* GENERATED from src/webob/cookies.py of the tree under check by harness/props/c15.py - do not edit *)",
           "From Coq Require Import NArith List String.", "Require Import Webob.Lib.Val.",
           "Import ListNotations.", "Local Open Scope N_scope.",
           "Definition allowed_cookie_bytes : list N := %s." % _nlist(t["allowed"]),
           "Definition valid_token_bytes : list N := %s." % _nlist(t["token"]),
           "Definition legal_bytes : list N := %s." % _nlist(t["legal"]),
           "Definition escape_map : list str := [\n  %s]." % ";\n  ".join(_h(b) for b in t["escape"]),
           "Definition path_escape_map : list str := [\n  %s]." % ";\n  ".join(_h(b) for b in t["path_escape"]),
           "Definition ch_unquote_oct : list N := %s." % _nlist(t["unq_oct"]),
           "Definition ch_unquote_single : list N := %s." % _nlist(t["unq_single"]),
           "Definition c_keys : list str := [%s]." % "; ".join(_h(k) for k in t["c_keys"]),
           "(* (key, emitted name, quoter is _value_quote) in the order of _c_valkeys *)",
           "Definition c_renames : list (str * str * bool) := [%s]." %
           "; ".join("(%s, %s, %s)" % (_h(k), _h(n), q) for k, n, q in t["renames"]),
           "Definition samesite_values : list str := [%s]." % "; ".join(_h(v) for v in t["samesite"])]
    fw.write_if_changed(GEN_PATH, "\n".join(out) + "\n")
    ctx.extra["tables"] = {"allowed": len(t["allowed"]), "token": len(t["token"]), "legal": len(t["legal"]),
                           "allowed_not_legal": bytes(sorted(set(t["allowed"]) - set(t["legal"]))).decode("latin-1")}
    return problems


# =========================================================================== literals
def ctext(t):
    """Coq literal of a Python str (code points) -> option text; anything that is not a str (None, bytes, int) is the
    model's None = 'not a str'."""
    return "(Some %s)" % cstr(t) if isinstance(t, str) else "None"


def jtext(t):
    if t is None:
        return None
    if isinstance(t, bytes):
        return {"bytes": t.hex()}
    if isinstance(t, int):
        return {"int": t}
    return [ord(c) for c in t]


def untext(j):
    if j is None:
        return None
    if isinstance(j, dict):
        return bytes.fromhex(j["bytes"]) if "bytes" in j else j["int"]
    return "".join(chr(c) for c in j)


def c_rop(o):
    t = o[0]
    if t == "set":
        return "(RSet %s %s)" % (ctext(o[1]), ctext(o[2]))
    if t == "del":
        return "(RDel %s)" % ctext(o[1])
    if t == "clear":
        return "RClear"
    if t == "assign":
        return "(RAssign %s)" % clist(cpair(cstr(k), cstr(v)) for k, v in o[1])
    raise ValueError(o)


def pairs_shape(o):
    return o[2] if len(o) > 2 else "dict"


def j_rop(o):
    t = o[0]
    if t == "read":
        return ["read", jtext(o[1])]
    if t == "set":
        return ["set", jtext(o[1]), jtext(o[2])]
    if t == "del":
        return ["del", jtext(o[1])]
    if t == "clear":
        return ["clear"]
    if t == "pop":
        return ["pop", jtext(o[1]), o[2]]
    if t == "setdefault":
        return ["setdefault", jtext(o[1]), jtext(o[2])]
    if t == "popitem":
        return ["popitem"]
    return [t, [[jtext(k), jtext(v)] for k, v in o[1]], pairs_shape(o)]      # assign / update


def unj_rop(j):
    t = j[0]
    if t == "read":
        return ("read", untext(j[1]))
    if t == "set":
        return ("set", untext(j[1]), untext(j[2]))
    if t == "del":
        return ("del", untext(j[1]))
    if t == "clear":
        return ("clear",)
    if t == "pop":
        return ("pop", untext(j[1]), j[2])
    if t == "setdefault":
        return ("setdefault", untext(j[1]), untext(j[2]))
    if t == "popitem":
        return ("popitem",)
    return (t, [(untext(k), untext(v)) for k, v in j[1]], j[2] if len(j) > 2 else "dict")


ARG_KEYS = ("name", "value", "max_age", "path", "domain", "comment", "secure", "httponly", "samesite")


def c_args(a, date=""):
    return "(mkArgs %s %s %s %s %s %s %s %s %s %s %s)" % (
        cstr(a["name"]), ctext(a.get("value")), copt(None if a.get("max_age") is None else cZ(a["max_age"])),
        ctext(a.get("path")), ctext(a.get("domain")), ctext(a.get("comment")), cbool(a.get("secure", False)),
        cbool(a.get("httponly", False)), ctext(a.get("samesite")), cstr(date), cbool(a.get("validate", True)))


def c_xop(o, date=""):
    t = o[0]
    if t == "set":
        return "(XSet %s %s %s)" % (cbool(o[1]), c_args(o[2], date), cbool(o[3]))
    if t == "delete":
        return "(XDelete %s %s %s %s)" % (cbool(o[1]), cstr(o[2]), ctext(o[3]), ctext(o[4]))
    if t == "unset":
        return "(XUnset %s %s %s)" % (cbool(o[1]), cstr(o[2]), cbool(o[3]))
    if t == "merge":
        return "(XMerge %s)" % cbool(o[1])
    if t == "mergeself":
        return "(XMergeSelf %s)" % cbool(o[1])
    if t == "raw":
        return "(XAddRaw %s %s %s)" % (cbool(o[1]), cstr(o[2]), cstr(o[3]))
    raise ValueError(o)


def xshape(o):
    """The argument-shape dict carried by an unset/delete op (absent = keywords, str name)."""
    n = {"unset": 4, "delete": 5}[o[0]]
    return o[n] if len(o) > n else {}


def j_xop(o):
    t = o[0]
    if t == "set":
        a = dict(o[2])
        for k in ("name", "value", "path", "domain", "comment", "samesite"):
            a[k] = jtext(a.get(k))
        return ["set", o[1], a, o[3]]
    if t == "delete":
        return ["delete", o[1], jtext(o[2]), jtext(o[3]), jtext(o[4]), xshape(o)]
    if t == "unset":
        return ["unset", o[1], jtext(o[2]), o[3], xshape(o)]
    if t in ("merge", "mergeself"):
        return [t, o[1]]
    return ["raw", o[1], o[2], o[3]]


def unj_xop(j):
    t = j[0]
    if t == "set":
        a = dict(j[2])
        for k in ("name", "value", "path", "domain", "comment", "samesite"):
            a[k] = untext(a.get(k))
        return ("set", j[1], a, j[3])
    if t == "delete":
        return ("delete", j[1], untext(j[2]), untext(j[3]), untext(j[4]), j[5] if len(j) > 5 else {})
    if t == "unset":
        return ("unset", j[1], untext(j[2]), j[3], j[4] if len(j) > 4 else {})
    if t in ("merge", "mergeself"):
        return (t, j[1])
    return ("raw", j[1], j[2], j[3])


# =========================================================================== running the real code
class FrozenClock:
    """Response.set_cookie(max_age=n) prints utcnow()+n; pin utcnow() for the duration of a run so that cases are
    reproducible (done from the harness: the module attribute `datetime` of webob.cookies is rebound)."""
    NOW = datetime.datetime(2031, 2, 3, 4, 5, 6)

    def __enter__(self):
        ck = C()
        self.old = ck.datetime
        now = self.NOW

        class Frozen(datetime.datetime):
            @classmethod
            def utcnow(cls):
                return now
        ck.datetime = Frozen
        warnings.simplefilter("ignore")

    def __exit__(self, *a):
        C().datetime = self.old


class StrictQuote:
    """The two configurations under which _value_quote refuses instead of quoting: the module flag
    webob.cookies._should_raise (mode 1) and RuntimeWarning turned into an error by the warnings filter (mode 2)."""

    def __init__(self, mode):
        self.mode = mode

    def __enter__(self):
        self.cw = warnings.catch_warnings()
        self.cw.__enter__()
        ck = C()
        self.old = ck._should_raise
        if self.mode == 1:
            ck._should_raise = True
        elif self.mode == 2:
            warnings.simplefilter("error", RuntimeWarning)

    def __exit__(self, *a):
        C()._should_raise = self.old
        self.cw.__exit__(*a)


N_QCFG = 4


def new_request(header, cfg=0):
    """A Request over an environ with this Cookie header, in the configuration `cfg`:
    0 webob.Request                      1 webob.request.BaseRequest (no ad-hoc attributes)
    2 a subclass, with the request charset / url_encoding knobs changed (latin-1 CONTENT_TYPE, webob.url_encoding)
    3 an environ that carries a 'webob._parsed_cookies' entry left by an EARLIER, different header"""
    from webob import Request
    from webob.request import BaseRequest
    env = Request.blank("/").environ
    if header is not None:
        env["HTTP_COOKIE"] = header
    if cfg == 1:
        return BaseRequest(env)
    if cfg == 2:
        class Odd(Request):
            default_request_charset = "latin-1"
        env["CONTENT_TYPE"] = "text/plain; charset=latin-1"
        env["webob.url_encoding"] = "latin-1"
        return Odd(env)
    if cfg == 3 and header != "zz=stale":
        env["webob._parsed_cookies"] = ({"zz": "stale"}, "zz=stale")
    return Request(env)


def read_jar(req, view=None):
    """dict(req.cookies) as an ordered list of pairs, or Err; through a held RequestCookies view when given."""
    try:
        ck = req.cookies if view is None else view
        return [[k, ck[k]] for k in ck.keys()]
    except Exception as e:  # noqa
        return Err(type(e).__name__)


def read_all(ck, name):
    """Every read-only access of a RequestCookies view, for one name."""
    return [catch(ck.get, name), catch(ck.get, name, "dflt"), catch(ck.__contains__, name), catch(len, ck),
            catch(lambda: [list(kv) for kv in ck.items()]), catch(lambda: list(ck.keys())), catch(lambda: list(ck.values())),
            catch(lambda: list(iter(ck))), catch(ck.__getitem__, name)]


def read_expected(jar, name):
    """What read_all must give when dict(cookies) is `jar` (ordered pairs)."""
    d = {k: v for k, v in jar}
    return [d.get(name), d.get(name, "dflt"), name in d, len(d), [list(kv) for kv in jar], [k for k, _ in jar],
            [v for _, v in jar], [k for k, _ in jar], d[name] if name in d else Err("KeyError")]


def pairs_arg(o, req):
    """The object handed over for an assign/update op, in the shape the op asks for, and a snapshot to compare with."""
    shape = pairs_shape(o)
    ps = [(k, v) for k, v in o[1]]
    if shape == "list":
        return list(ps), list(ps)
    if shape == "gen":
        return (p for p in ps), None
    if shape == "self":
        return req.cookies, None                       # the request's OWN jar: req.cookies = req.cookies
    if shape == "view":
        other = new_request(None)
        ck = C()
        keep = ck._should_raise
        with warnings.catch_warnings():                # built under the default configuration, whatever the case runs under
            warnings.simplefilter("ignore")
            ck._should_raise = None
            try:
                other.cookies = dict(ps)               # another request's jar carrying these cookies
            finally:
                ck._should_raise = keep
        return other.cookies, None
    return dict(ps), dict(ps)


def apply_rop(req, o, view=None):
    t = o[0]
    ck = req.cookies if view is None else view
    if t == "set":
        return catch(ck.__setitem__, o[1], o[2])
    if t == "del":
        return catch(ck.__delitem__, o[1])
    if t == "clear":
        return catch(ck.clear)
    if t == "read":
        return read_all(ck, o[1])
    if t == "pop":
        return catch(ck.pop, o[1], "dflt") if o[2] else catch(ck.pop, o[1])
    if t == "setdefault":
        return catch(ck.setdefault, o[1], o[2])
    if t == "popitem":
        r = catch(ck.popitem)
        return list(r) if isinstance(r, tuple) else r
    if t in ("assign", "update"):
        arg, snap = pairs_arg(o, req)

        def f():
            if t == "assign":
                req.cookies = arg
            else:
                ck.update(arg)
        r = catch(f)
        if snap is not None and (arg != snap or (isinstance(arg, dict) and list(arg) != list(snap))):
            return Err("caller-dict-mutated")
        return r
    raise ValueError(o)


def run_request_impl(header, ops, held=False, cfg=0):
    """What the model's run_request_u computes: [[header, dict]] + per mutating step [result, header, dict].
    held: ONE RequestCookies view serves the whole history.  Read-only steps are executed but give no row: the
    model has no counterpart (its reads are functions of the header), so they must be invisible."""
    req = new_request(header, cfg)
    view = req.cookies if held else None
    out = [[req.environ.get("HTTP_COOKIE"), read_jar(req, view)]]
    for o in ops:
        r = apply_rop(req, o, view)
        if o[0] != "read":
            out.append([r, req.environ.get("HTTP_COOKIE"), read_jar(req, view)])
    return out


def call_set_cookie(resp, a, overwrite):
    """Response.set_cookie with the arguments of `a`, passed in the SHAPE a["shape"] asks for: the first `pos`
    optional arguments positionally, name / value / attributes as bytes, max_age as timedelta or digit string, truthy
    non-bool flags, value omitted (its default is the empty string)."""
    sh = a.get("shape") or {}
    name = a["name"].encode("ascii") if sh.get("name_bytes") else a["name"]
    value = a.get("value")
    if "value_raw" in a:
        value = bytes.fromhex(a["value_raw"])
    elif sh.get("value") == "bytes":
        value = value.encode("utf-8")

    def conv(v):
        return v.encode("latin-1") if (sh.get("attr_bytes") and v is not None) else v
    ma = a.get("max_age")
    if ma is not None and sh.get("max_age") == "timedelta":
        ma = datetime.timedelta(seconds=ma)
    elif ma is not None and sh.get("max_age") == "str":
        ma = str(ma)

    def flag(b):
        return (1 if b else 0) if sh.get("int_flags") else b
    ordered = [("value", value), ("max_age", ma), ("path", conv(a.get("path"))), ("domain", conv(a.get("domain"))),
               ("secure", flag(a.get("secure", False))), ("httponly", flag(a.get("httponly", False))),
               ("comment", conv(a.get("comment"))), ("overwrite", overwrite), ("samesite", conv(a.get("samesite")))]
    npos = sh.get("pos", 0)
    if sh.get("value") == "omit":
        npos, ordered = 0, ordered[1:]
    args = [name] + [v for _, v in ordered[:npos]]
    kw = dict(ordered[npos:])
    ck = C()
    old = ck.SAMESITE_VALIDATION
    ck.SAMESITE_VALIDATION = a.get("validate", True)       # the module flag, read when the call is made
    try:
        return catch(resp.set_cookie, *args, **kw)
    finally:
        ck.SAMESITE_VALIDATION = old


def apply_xop(rs, o):
    t = o[0]
    if t == "set":
        return call_set_cookie(rs[o[1]], o[2], o[3])
    if t == "delete":
        sh = xshape(o)
        name = o[2].encode("ascii") if sh.get("name_bytes") else o[2]
        if sh.get("pos"):
            return catch(rs[o[1]].delete_cookie, name, o[3], o[4])
        if sh.get("omit") and o[3] == "/" and o[4] is None:
            return catch(rs[o[1]].delete_cookie, name)
        return catch(rs[o[1]].delete_cookie, name, path=o[3], domain=o[4])
    if t == "unset":
        sh = xshape(o)
        name = o[2].encode("utf-8") if sh.get("name_bytes") else o[2]
        if sh.get("pos"):
            return catch(rs[o[1]].unset_cookie, name, o[3])
        if sh.get("omit") and o[3] is True:
            return catch(rs[o[1]].unset_cookie, name)
        return catch(rs[o[1]].unset_cookie, name, strict=o[3])
    if t in ("merge", "mergeself"):
        target = rs[1 - o[1]] if t == "merge" else rs[o[1]]
        r = catch(rs[o[1]].merge_cookies, target)
        if isinstance(r, Err):
            return r
        if r is not target:
            return Err("merge_cookies-did-not-return-the-response")
        return None
    if t == "raw":
        return catch(rs[o[1]].headers.add, o[2], o[3])
    raise ValueError(o)


N_RCFG = 5


def new_responses(init, cfg=0):
    """Two Responses carrying the header lists `init`, constructed in the way `cfg` says:
    0 Response() then .headerlist = list      1 Response(headerlist=list) (constructor keyword)
    2 a subclass with default_charset = latin-1 and default_content_type = text/plain, its own headers kept in front
    3 Response(charset=...) with .charset re-assigned AFTER construction, own headers kept in front
    4 a webob.exc.HTTPOk instance (a Response subclass that is a WSGI application), own headers kept in front"""
    from webob import Response
    rs = []
    for hl in init:
        pairs = [(k, v) for k, v in hl]
        if cfg == 1:
            r = Response(headerlist=pairs)
        elif cfg == 2:
            class Latin(Response):
                default_charset = "latin-1"
                default_content_type = "text/plain"
            r = Latin()
            r.headerlist.extend(pairs)
        elif cfg == 3:
            r = Response(charset="utf-16")
            r.charset = "iso-8859-15"
            r.headerlist.extend(pairs)
        elif cfg == 4:
            from webob import exc
            r = exc.HTTPOk()
            r.headerlist.extend(pairs)
        else:
            r = Response()
            r.headerlist = pairs
        rs.append(r)
    return rs


def hl_obs(r):
    return [[k, v] for k, v in r.headerlist]


def run_response_impl(init, ops, cfg=0):
    """Per step [result, headerlist of response 0, headerlist of response 1], the rendered dates (model input) and
    the header lists the two responses really start with (model input: construction may add headers of its own)."""
    out, dates = [], []
    with FrozenClock():
        rs = new_responses(init, cfg)
        start = [hl_obs(r) for r in rs]
        for o in ops:
            r = apply_xop(rs, o)
            out.append([r, hl_obs(rs[0]), hl_obs(rs[1])])
            date = ""
            if o[0] == "set" and r is None:
                m = re.search(r"expires=([^;]*)", rs[o[1]].headerlist[-1][1])
                date = m.group(1) if m else ""
            dates.append(date)
    return out, dates, start


# =========================================================================== generators
NAMES = ["a", "A", "ab", "b"]
ATTR_KEYS = ["$Version", "$Path", "path", "Domain", "Max-Age", "expires", "a/b", "x:y", "(c)", "=", "$a", "SameSite"]
FLAGS = ["secure", "HttpOnly", "Partitioned", "a", "ab", "$x", "a b", "\"", "\"q\"", ",", "a,b", "\\", "[a]"]
# (raw value text, the octets it stands for)
VALUES_W = [("1", b"1"), ("2", b"2"), ("", b""), ("x=y", b"x=y"), ("a=1", b"a=1"), ("%20x", b"%20x"), ("~!@#$%^&*()_+-`.?|:/{}<>'", b"~!@#$%^&*()_+-`.?|:/{}<>'"),
            ('"q r"', b"q r"), ('"; a=1"', b"; a=1"), ('"a=1; b=2"', b"a=1; b=2"), ('""', b""), ('"x\\073y"', b"x;y"),
            ('"\\303\\251"', "é".encode()), ('"a,b"', b"a,b"), ('"\\042\\134"', b'"\\'), ('"="', b"=")]
VALUES_T = [("\\;", b";"), ("x\\ y", b"x y"), ("\\073", b";"), ("x\\\\", b"x\\"), ('"a\\"b"', b'a"b'),
            ("Wed, 31-Dec-97 23:59:59 GMT", b"Wed, 31-Dec-97 23:59:59 GMT"), ("\\\"", b'"'),
            ('"\\377"', b"\xff"), ("\\303\\251", "é".encode())]
SEPS_W = ["; ", ";", " ; ", ";;", "; ; ", ";  ", " ;"]
SEPS_T = [", ", ",", ";\t", "; \t", ";,", " ,", ",;"]
WS1 = ["", "", "", " ", "\t", " \t", "\n"]


def valid_name_ref(n):
    """Reference predicate (NOT webob's): RFC 6265 token, not '$'-prefixed, not an attribute word."""
    tok = set("!#$%&'*+-.^_`|~0123456789abcdefghijklmnopqrstuvwxyzABCDEFGHIJKLMNOPQRSTUVWXYZ")
    return bool(n) and all(c in tok for c in n) and n[0] != "$" and \
        n.lower() not in ("path", "comment", "domain", "max-age", "expires", "secure", "httponly", "samesite")


def gen_header(rng, cls):
    """A Cookie header assembled from pieces, and what it means: list of (name, octets) in order.
    cls 'W' : the class the theorems cover (pairs with optional white space round '=', values unquoted-legal or
              quoted, separated by runs of ';' and SP that start with ';'; arbitrary '='-free junk that ends in a
              non-legal character may follow a separator (flags, stray quotes, commas)), slightly widened: the
              separator may also be ' ;' / ' ; ' (a space between the value and the ';').
    cls 'T' : additionally backslash forms, date-shaped values, separators without ';'."""
    n = rng.choice([0, 1, 1, 2, 2, 3, 3, 4, 5])
    names = NAMES + NAMES + ATTR_KEYS if rng.random() < 0.6 else NAMES
    vals = VALUES_W if cls == "W" else VALUES_W + VALUES_T + VALUES_T
    seps = SEPS_W if cls == "W" else SEPS_W + SEPS_T
    text = ""
    intent = []

    def junk():
        # '='-free text ending in a non-legal character
        return rng.choice(FLAGS) + rng.choice(SEPS_W) if rng.random() < 0.25 else ""
    if rng.random() < 0.3:
        text += rng.choice(["; ", " ", ";", ";; ", "\t"]) if rng.random() < 0.6 else junk()
    for i in range(n):
        k = rng.choice(names)
        raw, octets = rng.choice(vals)
        w1, w2 = rng.choice(WS1), rng.choice(WS1)
        if raw == "" and cls == "W":
            w2 = ""
        text += k + w1 + "=" + w2 + raw
        intent.append((k, octets))
        if i < n - 1 or rng.random() < 0.25:
            sep = rng.choice(seps)
            if raw == "" and not sep.startswith(";"):
                sep = "; "      # "a= b=2" reads as a -> "b=2": an empty value needs a ';'
            text += sep + junk()
    return text, intent


def intent_dict(intent):
    """The reference dict a header means: valid names only, later pair wins, utf-8 text; None if undecodable."""
    d = {}
    for k, octets in intent:
        if valid_name_ref(k):
            try:
                d[k] = octets.decode("utf-8")
            except UnicodeDecodeError:
                return None
    return d


GARBAGE = ["a", "A", "b", "ab", "=", "=", ";", "; ", " ", "\"", "\\", ",", "$", "1", "07", "3", "[", "]", "\t", "\n", "\xe9", "\xff",
           "path", "secure", "a=1", "b=\"x\"", "Wed, 31-Dec-97 23:59:59 GMT", "\\073", "\x00", "\x7f", "(", "/", "\u20ac"]


def gen_garbage(rng):
    return "".join(rng.choice(GARBAGE) for _ in range(rng.randrange(0, 9)))


TEXT_VALUES = ["1", "2", "", "x", "x y", "x;y", "; a=1", "a=1; b=2", "\"", "\\", "q\"r", "é", "€;", "\U0001f36a", ",", "=",
               "\x00", "\n", "\t;", "x\\073", "\"quoted\"", "~!@#$%^&*()_+-`.?|:/{}<>'", " ", "  x  ", "\x7f\x80\xff", "Wed, 31-Dec-97 23:59:59 GMT"]
BRACKET_VALUES = ["x[y]", "[", "]x"]
# values used on the request side: the bracket values join in only when every octet webob emits bare is also legal on
# input (the premise plain_ok of the theorems; on a tree without C07's alphabet fix they would re-report C07's finding)
REQ_VALUES = list(TEXT_VALUES)
BAD_NAMES = ["", "$a", "a b", "a;b", "a=b", "path", "Path", "SECURE", "max-age", "é", "aé", "a,b", "a\"", "a/b", "(a)", "a\x00", "€"]
GOOD_NAMES = NAMES + ["c", "a.b", "a-b", "!#%&'*+-.^_`|~", "aB", "Ab", "abc", "0"]


NONSTR = [None, b"a", 5]


def gen_pairs(rng):
    ps = []
    for _ in range(rng.randrange(0, 4)):
        k = rng.choice(NAMES + GOOD_NAMES) if rng.random() < 0.9 else rng.choice([b for b in BAD_NAMES if b is not None])
        if k not in [p[0] for p in ps]:
            ps.append((k, rng.choice(REQ_VALUES)))
    return ps


def gen_rop(rng, wide=True, shapes=False):
    """shapes (oracle only): the MutableMapping methods built on the three primitives (pop with/without default,
    setdefault, popitem, update) and request.cookies = <the request's own jar / another request's jar>."""
    kinds = ["set", "set", "set", "del", "del", "clear", "assign", "read", "read"] if wide else ["set", "set", "del", "del"]
    if shapes:
        kinds = kinds + ["pop", "pop", "setdefault", "popitem", "update", "assign_self", "assign_view"]
    t = rng.choice(kinds)
    if t == "read":
        return ("read", rng.choice(NAMES + ["c", "path", "$a"]))
    if rng.random() < 0.12 and wide:
        name = rng.choice(BAD_NAMES + NONSTR)
    else:
        name = rng.choice(NAMES + NAMES + GOOD_NAMES)
    if t in ("set", "setdefault"):
        v = rng.choice(REQ_VALUES)
        if wide and rng.random() < 0.06:
            v = rng.choice([None, b"x", 7, "\ud800", "a\udfffb"])
        return (t, name, v)
    if t == "del":
        return ("del", name)
    if t == "pop":
        return ("pop", name, rng.random() < 0.5)
    if t in ("clear", "popitem"):
        return (t,)
    if t == "assign_self":
        return ("assign", [], "self")
    if t == "assign_view":
        return ("assign", [(k, v) for k, v in gen_pairs(rng) if valid_name_ref(k) and encodable(v)], "view")
    return (t, gen_pairs(rng), rng.choice(["dict", "dict", "list", "gen"]))      # assign / update


OPEN_TAILS = ['x="', 'x = "', 'x="abc', 'x="a b; c=3', '$Version= "', '$Version = ";', 'x="a\\', 'x=\\', 'x=1\\', 'x="q r"\\',
              'x="\\"', '"', '\\']
OPEN_HEADERS = ['x="', 'a=1; x="', 'x="; b=2', '$Version= "', 'x="abc', 'x=\\']


def gen_open_header(rng):
    """cls 'Q': a pre-existing header that ENDS INSIDE a quoted string or an escape (an odd number of unescaped double
    quotes, or a dangling backslash): well-formed pairs, then one pair whose quote is never closed / a trailing
    backslash, possibly followed by more pairs (which the open quote then swallows or not, as webob reads it)."""
    if rng.random() < 0.25:
        return rng.choice(OPEN_HEADERS)
    head = gen_header(rng, "W")[0] if rng.random() < 0.6 else ""
    text = (head + rng.choice(SEPS_W) if head else "") + rng.choice(OPEN_TAILS)
    if rng.random() < 0.35 and not text.endswith("\\"):
        text += rng.choice(["; b=2", ";b=2; a=1", "; secure", " ", ";", "; ab=x=y"])
    if open_tail(text) is None:                # (a second stray quote of the head closed it again)
        text += '; x="'
    return text


def open_tail(header):
    """Decided on the header TEXT alone: 'quote' if it holds an odd number of unescaped double quotes, 'escape' if it
    ends with an unescaped backslash, else None."""
    h, q, i = header or "", 0, 0
    while i < len(h):
        if h[i] == "\\":
            if i + 1 == len(h):
                return "quote" if q % 2 else "escape"
            i += 2
            continue
        q += h[i] == '"'
        i += 1
    return "quote" if q % 2 else None


OPEN_KEY = "request-jar:unbalanced-quote-in-existing-header"


def gen_request_case(rng, maxlen, cls=None, shapes=False):
    cls = cls or rng.choice(["W", "W", "T", "T", "G"])
    if cls == "G" and rng.random() < 0.35:     # 7% of all histories
        cls = "Q"
    if cls == "Q":
        header, intent = gen_open_header(rng), None
    elif cls == "G":
        header, intent = gen_garbage(rng), None
    else:
        header, intent = gen_header(rng, cls)
    if rng.random() < 0.08:
        header, intent = (None, []) if rng.random() < 0.5 else ("", [])
    ops = [gen_rop(rng, True, shapes) for _ in range(rng.randrange(1, maxlen + 1))]
    return {"kind": "request", "class": cls, "header": header, "intent": intent, "ops": ops, "held": rng.random() < 0.5,
            "rcfg": rng.randrange(N_QCFG), "strictq": rng.choice([0, 0, 0, 1, 2]) if shapes else 0}


ATTR_TEXT = [None, None, "/", "/p", "/p q", "/a;b", "x; secure", "d.example", ".e.com", "c\"o,m", "é", "", "a=b; HttpOnly", "\\"]


def needs_quote(b):
    """Whether _value_quote has to quote these octets (and so warns, or raises under the strict configurations)."""
    allowed = set(C()._allowed_cookie_bytes)
    return any(c not in allowed for c in b)


def gen_shape(rng, a):
    """An argument shape applicable to these set_cookie arguments (same meaning, other spelling)."""
    sh = {}
    if rng.random() < 0.4:
        sh["pos"] = rng.randrange(0, 10)
    if rng.random() < 0.2 and all(ord(c) < 128 for c in a["name"]):
        sh["name_bytes"] = True
    v = a.get("value")
    if isinstance(v, str) and encodable(v) and "value_raw" not in a:
        x = rng.random()
        if x < 0.2:
            sh["value"] = "bytes"
        elif x < 0.35 and v == "":
            sh["value"] = "omit"
    if rng.random() < 0.2 and all(a.get(k) is None or all(ord(c) < 256 for c in a[k]) for k in ("path", "domain", "comment", "samesite")):
        sh["attr_bytes"] = True
    if isinstance(a.get("max_age"), int) and abs(a["max_age"]) < 10 ** 9 and rng.random() < 0.5:
        sh["max_age"] = rng.choice(["timedelta", "str"])
    if rng.random() < 0.2:
        sh["int_flags"] = True
    return sh


def gen_args(rng, names, wide=False):
    """wide: also values outside what the model can express (oracle only): raw non-UTF-8 bytes as value, max_age that is
    not an int (digit-free text, float) or too large for a date."""
    a = {"name": rng.choice(names), "value": rng.choice(TEXT_VALUES + TEXT_VALUES + BRACKET_VALUES), "max_age": None,
         "path": "/", "domain": None, "comment": None, "samesite": None, "validate": True}
    if rng.random() < 0.5:
        a["path"] = rng.choice(ATTR_TEXT)
    if rng.random() < 0.3:
        a["domain"] = rng.choice(ATTR_TEXT)
    if rng.random() < 0.25:
        a["comment"] = rng.choice(ATTR_TEXT)
    if rng.random() < 0.3:
        a["max_age"] = rng.choice([0, 1, 60, 3600, -1, 86400 * 400])
    a["secure"] = rng.random() < 0.45
    a["httponly"] = rng.random() < 0.4
    if rng.random() < 0.45:
        a["samesite"] = rng.choice(["Strict", "lax", "None", "none", "NONE"] if a["secure"] else ["strict", "Lax", "lax", "none"])
    if rng.random() < 0.04:
        a["samesite"] = rng.choice(["bogus", "", "\u20ac"])
    if rng.random() < 0.15:
        # the module flag SAMESITE_VALIDATION switched off for this call: free-form values are copied
        a["validate"] = False
        if rng.random() < 0.6:
            a["samesite"] = rng.choice(["future", "bogus", "\xe9", "None", "none", "", "a;b"])
    if rng.random() < 0.03:
        a["value"] = rng.choice([None, "\ud800"])
    if rng.random() < 0.03:
        a[rng.choice(["path", "domain", "comment"])] = "\u20ac"
    if wide and rng.random() < 0.08:
        a["oracle_only"] = True
        if rng.random() < 0.4:
            a["value_raw"] = rng.choice(["ff", "c3", "80413b", "00"])
            a["value"] = None
        else:
            a["max_age"] = rng.choice(["x", "", 1.5, 10 ** 12, 10 ** 18, "60 "])
    a["shape"] = gen_shape(rng, a)
    return a


RAW_LINES = ["z=1; Priority=High; Partitioned", "a=raw; Path=/x; Secure; HttpOnly; SameSite=None", "ab=1", "A=2; secure",
             "b=\"x; a=1\"; Path=/", "junk", "", " a=1", "=x", "a = 3; Path=/", "path=/; a=1", "b=1; a=2", "a=1; b=2"]
RAW_KEYS = ["Set-Cookie", "Set-Cookie", "set-cookie", "SET-COOKIE", "X-Other", "Content-Type", "Set-Cookie2"]


def raw_line(rng, empty_ok):
    """A header value written by other code; the empty Set-Cookie value is kept out of the oracle's inputs (it is not a
    cookie and nothing in the API produces it; merge_cookies treats a last empty value as 'no cookies')."""
    l = rng.choice(RAW_LINES)
    while l == "" and not empty_ok:
        l = rng.choice(RAW_LINES)
    return l


def gen_xop(rng, raw=True, empty_ok=True, wide=False):
    names = NAMES + NAMES + ["c", "aB"] + (BAD_NAMES[:8] if rng.random() < 0.05 else [])
    t = rng.choice(["set", "set", "set", "set_over", "set_over", "delete", "unset", "unset", "unset", "merge", "merge", "mergeself"]
                   + (["raw"] if raw else []))
    who = int(rng.random() < 0.3)
    if t in ("set", "set_over"):
        return ("set", who, gen_args(rng, names, wide), t == "set_over")
    if t == "delete":
        name = rng.choice(names)
        sh = {"pos": rng.random() < 0.3, "omit": rng.random() < 0.3, "name_bytes": rng.random() < 0.2 and all(ord(c) < 128 for c in name)}
        return ("delete", who, name, rng.choice(ATTR_TEXT[:6] + ["/", "/", "/"]), rng.choice(ATTR_TEXT[:2] + [None, "d.example"]), sh)
    if t == "unset":
        name = rng.choice(names + ["\xe9"])
        sh = {"pos": rng.random() < 0.3, "omit": rng.random() < 0.3, "name_bytes": rng.random() < 0.2}
        return ("unset", who, name, rng.random() < 0.7, sh)
    if t in ("merge", "mergeself"):
        return (t, who)
    return ("raw", who, rng.choice(RAW_KEYS), raw_line(rng, empty_ok))


def gen_response_case(rng, maxlen, raw=True, empty_ok=True, wide=False):
    """wide (oracle only): argument values the model cannot express, and the strict-quoting configurations
    (webob.cookies._should_raise, RuntimeWarning turned into an error)."""
    init = [[], []]
    if raw and rng.random() < 0.4:
        for i in (0, 1):
            for _ in range(rng.randrange(0, 3)):
                init[i].append([rng.choice(RAW_KEYS), raw_line(rng, empty_ok)])
    if rng.random() < 0.5:
        init[0].insert(0, ["Content-Type", rng.choice(["text/html; charset=UTF-8", "text/plain; charset=latin-1",
                                                       "application/octet-stream", "text/html; charset=shift_jis"])])
        init[0].append(["Content-Length", "0"])
    ops = [gen_xop(rng, raw, empty_ok, wide) for _ in range(rng.randrange(1, maxlen + 1))]
    return {"kind": "response", "init": init, "ops": ops, "rcfg": rng.randrange(N_RCFG),
            "strictq": rng.choice([0, 0, 0, 1, 2]) if wide else 0}


# =========================================================================== the property, executable
REJECT = ("TypeError", "IndexError")     # how RequestCookies refuses a name
RESERVED = ("path", "comment", "domain", "max-age", "expires", "secure", "httponly", "samesite")


def raw_pairs(header):
    """The (key, raw value) pairs webob's own scanner sees in a header; None if it cannot be encoded."""
    try:
        return [tuple(kv) for kv in C()._rx_cookie.findall((header or "").encode("latin-1"))]
    except UnicodeEncodeError:
        return None


def decodable(b):
    try:
        b.decode("utf-8")
        return True
    except UnicodeDecodeError:
        return False


def encodable(t):
    try:
        t.encode("utf-8")
        return True
    except UnicodeEncodeError:
        return False


def fresh_views(req):
    """dict(cookies) as read by a new Request over a copy of the environ, with and without webob's cache entry."""
    from webob import Request
    e1 = dict(req.environ)
    e2 = dict(req.environ)
    e2.pop("webob._parsed_cookies", None)
    return read_jar(Request(e1)), read_jar(Request(e2))


def classify_request(op, before):
    """A specific key for a request-jar failure: which known mechanism (if any) the failing step exercises."""
    pairs = raw_pairs(before) or []
    name = op[1] if len(op) > 1 and isinstance(op[1], str) else None
    if op[0] in ("set", "del", "pop", "setdefault") and name is not None:
        bname = name.encode("utf-8", "replace")
        if sum(1 for k, _ in pairs if k == bname) >= 2:
            return "request-jar:duplicate-name-edit-acts-on-first-pair"
    if op[0] == "del" and name is not None:
        ck = C()
        hb = (before or "").encode("latin-1", "replace")
        prev_end = 0
        for m in ck._rx_cookie.finditer(hb):
            if m.group(1) == name.encode("utf-8", "replace") and len(hb[:m.start()].rstrip(b" ;")) < prev_end:
                return "request-jar:delete-strips-into-previous-pair"
            prev_end = m.end()
    return "request-jar:dict-model"


_LEGAL = []


def in_class(header):
    """The theorems' domain predicate [wf_headerb] of Spec/C15_JarSpec.v (proved equivalent to wf_header), computed here
    on webob's own scanner (= the model's scan, by the scan correspondence) and the regenerated legal alphabet; the
    'wf-header' correspondence compares it with the Coq predicate on every header the correspondence histories pass through."""
    if not _LEGAL:
        _LEGAL.extend(read_tables()[0]["legal"])
    legal = set(_LEGAL)
    try:
        hb = (header or "").encode("latin-1")
    except UnicodeEncodeError:
        return False
    prev = 0
    for m in C()._rx_cookie.finditer(hb):
        gap = hb[prev:m.start()]
        if 61 in gap or (gap and gap[-1] in legal):
            return False
        key = m.group(1)
        if not key or any(c == 61 or c not in legal for c in key):
            return False
        sep = hb[m.end(1):m.start(2)]
        i = sep.find(b"=")
        if i < 0 or any(c not in WS for c in sep[:i] + sep[i + 1:]):
            return False
        val = m.group(2)
        if len(val) >= 2 and val[0] == 34 and val[-1] == 34:
            body = val[1:-1]
            if any(c in (34, 10) for c in body) or (body and body[-1] == 92):
                return False
        elif any(c not in legal for c in val):
            return False
        nxt = hb[m.end():m.end() + 1]
        if nxt and nxt != b";":
            return False
        prev = m.end()
    return 61 not in hb[prev:]


def set_refusal(name, value, strictq):
    """None when cookies[name] = value must be accepted, else the exception classes with which it must be refused
    (reference predicate: RFC 6265 token names that are not attribute words, text values; under the strict-quoting
    configurations a value that needs quoting is refused as well)."""
    if not isinstance(name, str) or not valid_name_ref(name):
        return REJECT
    if not isinstance(value, str) or not encodable(value):
        return ("ValueError", "UnicodeEncodeError")
    if strictq and needs_quote(value.encode("utf-8")):
        return ("ValueError",) if strictq == 1 else ("RuntimeWarning",)
    return None


def oracle_request(case):
    """None if the statement holds on this case on the real RequestCookies, else (key, message)."""
    header, ops, cls = case["header"], case["ops"], case["class"]
    strictq = case.get("strictq", 0)
    with StrictQuote(strictq):
        if not strictq:
            warnings.simplefilter("ignore")
        req = new_request(header, case.get("rcfg", 0))
        view = req.cookies if case.get("held") else None      # ONE RequestCookies view for the whole history
        init = read_jar(req, view)
        ref = None
        semantic = cls in ("W", "T")
        if semantic:
            ref = intent_dict(case["intent"])
            if ref is None:
                semantic = False          # a value that is not UTF-8: request.cookies is a text API (C07's domain)
            elif init != [[k, v] for k, v in ref.items()]:
                return ("request-jar:initial-read", "header %r reads as %r, its pairs mean %r" % (header, init, list(ref.items())))
        if ref is None and not isinstance(init, Err):
            ref = {k: v for k, v in init}
        finding = None
        for i, op in enumerate(ops):
            before = req.environ.get("HTTP_COOKIE")
            before_pairs = raw_pairs(before)
            before_jar = read_jar(req, view)
            if finding is None and before_jar == Err("UnicodeDecodeError") and before_pairs is not None:
                poison = [k for k, v in C().parse_cookie(before) if not decodable(v)]
                good = [k for k, v in C().parse_cookie(before) if decodable(v)]
                if poison and good:
                    finding = ("request-jar:non-utf8-value-poisons-jar",
                               "step %d on %r: header %r: cookie %r holds octets that are not UTF-8 and reading ANY cookie (%r) "
                               "raises UnicodeDecodeError" % (i, header, before, poison[0], good))
            if not semantic:
                # not known to be tokenisable by construction: the reference follows what the implementation reads, and the
                # theorems' own domain predicate decides, header by header, whether the dict-model comparison is owed
                ref = {k: v for k, v in before_jar} if not isinstance(before_jar, Err) else None
            sem = semantic or (in_class(before) and not strictq)
            # a brand-new Request over the same header must answer this operation exactly like the long-lived one
            twin = new_request(before)
            tr = apply_rop(twin, op)
            r = apply_rop(req, op, view)
            after = req.environ.get("HTTP_COOKIE")
            jar = read_jar(req, view)
            where = "step %d %r on %r (header %r -> %r): " % (i, op, header, before, after)
            key = classify_request(op, before)
            t = op[0]
            own_jar = t == "assign" and pairs_shape(op) == "self"
            if own_jar:
                key = "request-cookies-setter:self-assignment-loses-cookies"
            if not own_jar:
                if r != tr or after != twin.environ.get("HTTP_COOKIE"):
                    return ("request-jar:long-lived-object-differs-from-fresh",
                            where + "this Request/RequestCookies gave %r and header %r, a fresh Request over the same header "
                            "gives %r and %r" % (r, after, tr, twin.environ.get("HTTP_COOKIE")))
            if r == Err("caller-dict-mutated"):
                return ("request-jar:caller-argument-mutated", where + "the object assigned to request.cookies was modified")
            if t == "read":
                if after != before or jar != before_jar:
                    return ("request-jar:read-changes-state", where + "a read-only access changed the jar")
                if not isinstance(before_jar, Err) and r != read_expected(before_jar, op[1]):
                    return ("request-jar:read-views-disagree", where + "get/in/len/items/keys/values/iter/[] give %r, "
                            "dict(cookies) is %r" % (r, before_jar))
                continue
            if before_pairs is None and (t in ("set", "del", "pop", "setdefault", "popitem", "update")
                                         or (t == "assign" and pairs_shape(op) == "self")):
                # OUTSIDE the model's domain: a Cookie header that is not latin-1.  What remains of the statement: every
                # access is refused with UnicodeEncodeError (a name is refused first) and nothing changes
                refused = isinstance(r, Err) and r.name in ("UnicodeEncodeError",) + REJECT + ("ValueError", "KeyError")
                if t == "update" and not op[1]:
                    refused = r is None
                if not refused or after != before:
                    return (key if own_jar else "request-jar:non-latin-1-header", where + "gave %r on a header that cannot be a WSGI string" % (r,))
                continue
            if isinstance(before_jar, Err) and t in ("setdefault", "pop", "popitem"):
                # these read first: an unreadable jar (a value that is not UTF-8) answers with the same exception
                if r != before_jar or after != before:
                    return (key, where + "gave %r on a jar that reads as %r" % (r, before_jar))
                continue
            # ---- what must happen
            refusal = None
            if t in ("set", "setdefault") and not (t == "setdefault" and ref is not None and op[1] in ref):
                refusal = set_refusal(op[1], op[2], strictq)
            elif t == "del" and (not isinstance(op[1], str) or not valid_name_ref(op[1])):
                refusal = REJECT
            if refusal:
                if not (isinstance(r, Err) and r.name in refusal):
                    return (key, where + "not refused with %s (got %r)" % ("/".join(refusal), r))
                if after != before or jar != before_jar:
                    return (key, where + "a rejected operation changed the jar")
                continue
            if after is not None and after != before and (not isinstance(after, str) or raw_pairs(after) is None):
                return (key, where + "HTTP_COOKIE is no longer a latin-1 native string")
            if t == "clear":
                if r is not None or jar != []:
                    return (key, where + "clear() left %r (returned %r)" % (jar, r))
                ref = {}
                semantic = True          # the empty header is in the class
            elif t in ("assign", "update"):
                if pairs_shape(op) == "self":
                    # request.cookies = request.cookies: nothing may change (under the strict-quoting configurations the
                    # jar is written again, and a value that needs quoting is refused like in any other assignment)
                    if ref is not None and strictq and any(needs_quote(v.encode("utf-8")) for v in ref.values()):
                        if not isinstance(r, Err):
                            return (key, where + "a value that needs quoting was accepted under strict quoting")
                        ref = {k: v for k, v in jar} if not isinstance(jar, Err) else None
                    elif ref is not None and (r is not None or jar != [[k, v] for k, v in ref.items()]):
                        return ("request-cookies-setter:self-assignment-loses-cookies",
                                where + "assigning the request's own jar gave %r and left %r, it held %r" % (r, jar, list(ref.items())))
                elif t == "assign" or (sem and ref is not None):
                    want, bad = ({} if t == "assign" else dict(ref)), False
                    for k, v in op[1]:
                        if set_refusal(k, v, strictq):
                            bad = True
                            break
                        want[k] = v
                    if bad != isinstance(r, Err):
                        return (key, where + "assignment returned %r" % (r,))
                    if bad and t == "assign":
                        # request.cookies = {...} that is refused: the jar stays as it was
                        if after != before or jar != before_jar:
                            return ("request-cookies-setter:refused-assignment-changes-jar",
                                    where + "the assignment raised %r, yet the jar now reads %r (it read %r)" % (r, jar, before_jar))
                    else:
                        if jar != [[k, v] for k, v in want.items()]:
                            return (key, where + "jar reads %r, assigned %r" % (jar, list(want.items())))
                        ref = want
                        if t == "assign":
                            semantic = True      # the header is now entirely webob's own
            elif t == "popitem":
                if ref is not None:
                    if not ref:
                        if r != Err("KeyError") or after != before and not (before is None and after in (None, "")):
                            return (key, where + "popitem() on an empty jar gave %r" % (r,))
                    elif not (isinstance(r, list) and len(r) == 2 and ref.get(r[0]) == r[1]):
                        return (key, where + "popitem() gave %r, the jar held %r" % (r, list(ref.items())))
                    else:
                        del ref[r[0]]
                        if sem and jar != [[k, v] for k, v in ref.items()]:
                            return (key, where + "jar reads %r, the reference dict is %r" % (jar, list(ref.items())))
            else:
                name = op[1]
                if ref is not None:
                    present = isinstance(name, str) and name in ref
                    if t in ("del", "pop"):
                        want_r = None if t == "del" else ref[name] if present else "dflt" if op[2] else Err("KeyError")
                        if present and r != want_r:
                            return (key, where + "removing a present cookie returned %r" % (r,))
                        if not present and r != (Err("KeyError") if t == "del" else want_r):
                            return (key, where + "removing an absent cookie gave %r" % (r,))
                        if not present and (after != before and not (before is None and after in (None, ""))):
                            return (key, where + "a failed deletion changed the header")
                        if present:
                            del ref[name]
                    elif t == "setdefault" and present:
                        if r != ref[name] or after != before:
                            return (key, where + "setdefault of a present cookie gave %r" % (r,))
                    else:
                        if r != (None if t == "set" else op[2]):
                            return (key, where + "assignment gave %r" % (r,))
                        ref[name] = op[2]
                elif t == "set" and r is not None and not isinstance(init, Err):
                    return (key, where + "assignment raised %r" % (r,))
                if sem and ref is not None and isinstance(name, str) and valid_name_ref(name):
                    if jar != [[k, v] for k, v in ref.items()]:
                        return (key, where + "jar reads %r, the reference dict is %r" % (jar, list(ref.items())))
                    bname = name.encode("ascii")
                    a = [kv for kv in raw_pairs(after) if kv[0] != bname]
                    b = [kv for kv in before_pairs if kv[0] != bname]
                    if a != b:
                        return (key, where + "pairs of other names changed: %r -> %r" % (b, a))
                elif not sem and ref is not None and not strictq and isinstance(name, str) and valid_name_ref(name) \
                        and open_tail(before) and key == "request-jar:dict-model" and not isinstance(jar, Err):
                    # outside the class BECAUSE the header ends inside a quoted string / an escape: the reference dict is
                    # what the implementation itself read before this step, with this one operation applied
                    if jar != [[k, v] for k, v in ref.items()]:
                        lost = [k for k in ref if k not in dict(jar)]
                        return (OPEN_KEY, where + "the existing header ends inside %s: the jar read %r before this step and reads %r "
                                "after it, the dict model says %r%s" % (
                                    "a double-quoted string that is never closed" if open_tail(before) == "quote" else "a backslash escape",
                                    before_jar, jar, list(ref.items()), ("; lost: %r" % lost) if lost else ""))
                # (outside the class otherwise only coherence is asked: the reference is re-read at the next step)
            f1, f2 = fresh_views(req)
            if view is not None and read_jar(req) != jar:
                return ("request-jar:fresh-request-disagrees", where + "a new req.cookies view reads %r, the held one %r" % (read_jar(req), jar))
            if f1 != jar or f2 != jar:
                return ("request-jar:fresh-request-disagrees", where + "a fresh Request reads %r / %r, this one %r" % (f1, f2, jar))
            if isinstance(jar, Err) and semantic:
                return (key, where + "jar unreadable: %r" % (jar,))
    return finding


def ref_line_name(line):
    """RFC 6265 5.2 (NOT webob's scanner): the name is what precedes the first '=' of the first ';'-component."""
    first = line.split(";", 1)[0]
    if "=" not in first:
        return None
    return first.split("=", 1)[0].strip(" \t") or None      # a cookie-name is a token: never empty


def value_octets(a):
    """The octets a set_cookie call stores as the cookie value (None: deletion / not expressible)."""
    if "value_raw" in a:
        return bytes.fromhex(a["value_raw"])
    v = a.get("value")
    if v is None or not encodable(v):
        return None
    return v.encode("utf-8")


def max_age_seconds(m):
    """int(max_age) as make_cookie takes it; 'bad' when it must be refused (not a number, or no such date)."""
    if m is None:
        return None
    try:
        n = int(m)
    except (ValueError, TypeError):
        return "bad"
    try:
        FrozenClock.NOW + datetime.timedelta(seconds=n)
    except OverflowError:
        return "bad"
    return n


def args_valid(a, deleting=False, strictq=0):
    """Whether set_cookie must succeed on these arguments (reference predicate)."""
    if not valid_name_ref(a["name"]):
        return False
    if not deleting and "value_raw" not in a and a.get("value") is not None and not encodable(a["value"]):
        return False
    for k in ("path", "domain", "comment", "samesite"):
        v = a.get(k)
        if v is not None:
            try:
                v.encode("latin-1")
            except UnicodeEncodeError:
                return False
    if not deleting and ("value_raw" in a or a.get("value") is not None) and max_age_seconds(a.get("max_age")) == "bad":
        return False          # (value None = deletion: max_age is overridden)
    ss = a.get("samesite")
    if ss:
        if a.get("validate", True) and ss.lower() not in ("strict", "lax", "none"):
            return False
        if not a.get("validate", True) and not all(c in "!#$%&'*+-.^_`|~0123456789abcdefghijklmnopqrstuvwxyzABCDEFGHIJKLMNOPQRSTUVWXYZ" for c in ss):
            return False          # with the module flag off the value is copied verbatim: it must still be a token
        if ss.lower() == "none" and not a.get("secure"):
            return False
        if not all(ord(c) < 128 for c in ss):
            return False          # the header line must be ASCII
    elif ss == "" and a.get("validate", True):
        return False
    if strictq:
        # webob.cookies._should_raise / RuntimeWarning as error: a value that needs quoting is refused
        vo = None if deleting else value_octets(a)
        if vo and needs_quote(vo):
            return False
        if a.get("comment") and needs_quote(a["comment"].encode("latin-1")):
            return False
    return True


def ref_unescape(raw):
    """Reference reading (NOT webob's) of an emitted cookie value: optional double quotes, \\ooo octal escapes."""
    if len(raw) >= 2 and raw[0] == raw[-1] == '"':
        raw = raw[1:-1]
    out = bytearray()
    i = 0
    while i < len(raw):
        if raw[i] == "\\" and re.fullmatch(r"[0-3][0-7][0-7]", raw[i + 1:i + 4] or ""):
            out.append(int(raw[i + 1:i + 4], 8))
            i += 4
        else:
            out.append(ord(raw[i]))
            i += 1
    return bytes(out)


def check_line(line, a, deleting):
    """Shape of the Set-Cookie line webob appended for these arguments (split on ';' as a user agent would)."""
    parts = line.split("; ")
    if not parts[0].startswith(a["name"] + "="):
        return "line %r does not start with %s=" % (line, a["name"])
    keys = [p.split("=", 1)[0] for p in parts[1:]]
    want_flags = [f for f, on in (("secure", a.get("secure")), ("HttpOnly", a.get("httponly"))) if on]
    if [k for k in keys if k in ("secure", "HttpOnly")] != want_flags:
        return "line %r does not carry exactly the flags %r" % (line, want_flags)
    if ("SameSite" in keys) != bool(a.get("samesite")):
        return "line %r: SameSite attribute presence is wrong" % line
    if a.get("samesite") and parts[-1] != "SameSite=" + a["samesite"]:
        return "line %r does not end with SameSite=%s" % (line, a["samesite"])
    for attr, k in (("Path", "path"), ("Domain", "domain"), ("Comment", "comment")):
        if (attr in keys) != bool(a.get(k)):
            return "line %r: %s attribute presence is wrong" % (line, attr)
    vo = None if deleting else value_octets(a)
    if vo is not None:
        # the value is the UTF-8 text (or the bytes) given, whatever charset the Response has
        got = ref_unescape(parts[0][len(a["name"]) + 1:])
        if got != vo:
            return "line %r carries the value %r, not %r" % (line, got, vo)
        secs = max_age_seconds(a.get("max_age"))
        if ("Max-Age" in keys) != (secs is not None) or (secs is not None and "Max-Age=%d" % secs not in parts[1:]):
            return "line %r: Max-Age is not %r" % (line, secs)
    if deleting or (a.get("value") is None and "value_raw" not in a):
        if parts[0] != a["name"] + "=":
            return "deletion line %r carries a value" % line
        if "Max-Age=0" not in parts[1:]:
            return "deletion line %r lacks Max-Age=0" % line
        ex = [p for p in parts[1:] if p.startswith("expires=")]
        if len(ex) != 1:
            return "deletion line %r lacks expires" % line
        try:
            when = datetime.datetime.strptime(ex[0][8:], "%a, %d-%b-%y %H:%M:%S GMT")
        except ValueError:
            return "deletion line %r: unreadable expiry" % line
        if when >= datetime.datetime(2020, 1, 1):
            return "deletion line %r does not expire in the past" % line
    return None


def split_hl(hl):
    ck = [v for k, v in hl if k.lower() == "set-cookie"]
    other = [[k, v] for k, v in hl if k.lower() != "set-cookie"]
    return ck, other


def oracle_response(case):
    """None if the Set-Cookie headers follow the reference list model after every step, else (key, message)."""
    init, ops = case["init"], case["ops"]
    strictq = case.get("strictq", 0)
    with FrozenClock(), StrictQuote(strictq):
        rs = new_responses(init, case.get("rcfg", 0))
        start = [hl_obs(x) for x in rs]        # construction may add headers of its own (Content-Type, Content-Length)
        ref = [split_hl(hl)[0] for hl in start]
        others = [split_hl(hl)[1] for hl in start]
        for i, op in enumerate(ops):
            t = op[0]
            before = [split_hl(hl_obs(r))[0] for r in rs]
            # brand-new Responses with the same header lists must answer this operation like the long-lived ones
            twins = new_responses([hl_obs(x) for x in rs])
            tr = apply_xop(twins, op)
            r = apply_xop(rs, op)
            now = [split_hl(hl_obs(x)) for x in rs]
            where = "step %d %r: Set-Cookie %r -> %r: " % (i, op, before, [n[0] for n in now])
            if r != tr or [hl_obs(x) for x in rs] != [hl_obs(x) for x in twins]:
                return ("response:long-lived-object-differs-from-fresh",
                        where + "these Responses gave %r and %r, fresh Responses with the same header lists give %r and %r"
                        % (r, [hl_obs(x) for x in rs], tr, [hl_obs(x) for x in twins]))
            touches_others = t == "unset" or (t == "set" and op[3])
            # unset_cookie (also reached through overwrite=True) is the one place that rewrites existing headers
            key = "unset-cookie:set-cookie-headers-reserialised" if touches_others else "response:set-cookie-list-model"
            want = [list(x) for x in ref]
            if t in ("set", "delete"):
                w = op[1]
                a = op[2] if t == "set" else {"name": op[2], "value": None, "path": op[3], "domain": op[4]}
                ok = args_valid(a, t == "delete", strictq)
                filtered = [l for l in want[w] if ref_line_name(l) != a["name"]] if (t == "set" and op[3]) else want[w]
                if ok:
                    if r is not None:
                        return (key, where + "valid set_cookie/delete_cookie raised %r" % (r,))
                    got = now[w][0]
                    if len(got) != len(filtered) + 1 or got[:-1] != filtered:
                        return (key, where + "other Set-Cookie headers changed: expected %r + [new line]" % (filtered,))
                    msg = check_line(got[-1], a, t == "delete")
                    if msg:
                        return ("response:new-line-shape", where + msg)
                    want[w] = got
                else:
                    if not isinstance(r, Err):
                        return ("response:invalid-arguments-accepted", where + "invalid arguments accepted")
                    if now[w][0] != want[w]:
                        if now[w][0] == filtered:
                            return ("set-cookie-overwrite:refused-call-removes-old-cookie",
                                    where + "set_cookie(overwrite=True) raised %r, yet the cookie it was to replace is gone" % (r,))
                        return (key, where + "a refused set_cookie changed the Set-Cookie headers")
            elif t == "unset":
                w, name, strict = op[1], op[2], op[3]
                present = any(ref_line_name(l) == name for l in want[w])
                if present:
                    want[w] = [l for l in want[w] if ref_line_name(l) != name]
                    if r is not None:
                        return (key, where + "unset_cookie of a present cookie raised %r" % (r,))
                elif strict:
                    if r != Err("KeyError"):
                        return (key, where + "unset_cookie of an absent cookie gave %r, not KeyError" % (r,))
                elif r is not None:
                    return (key, where + "unset_cookie(strict=False) raised %r" % (r,))
            elif t in ("merge", "mergeself"):
                src, dst = op[1], (1 - op[1] if t == "merge" else op[1])
                if r is not None:
                    return (key, where + "merge_cookies gave %r" % (r,))
                want[dst] = want[dst] + want[src]
            elif t == "raw":
                if op[2].lower() == "set-cookie":
                    want[op[1]] = want[op[1]] + [op[3]]
                else:
                    others[op[1]] = others[op[1]] + [[op[2], op[3]]]
            for w in (0, 1):
                if now[w][0] != want[w]:
                    return (key, where + "response %d carries Set-Cookie %r, the reference list is %r" % (w, now[w][0], want[w]))
                if now[w][1] != others[w]:
                    return (key, where + "response %d: headers other than Set-Cookie changed: %r, expected %r" % (w, now[w][1], others[w]))
            ref = want
        # merge_cookies onto a plain WSGI application
        seen = []

        def app(environ, start_response):
            start_response("200 OK", [("X-App", "1")])
            return [b"body"]
        wrapped = catch(rs[0].merge_cookies, app)
        if isinstance(wrapped, Err):
            return ("response:merge-onto-app", "merge_cookies(app) raised %r" % (wrapped,))
        body = wrapped({}, lambda status, headers, exc_info=None: seen.append((status, list(headers))))
        exp = [("X-App", "1")] + [("Set-Cookie", l) for l in ref[0]]
        if list(body) != [b"body"] or len(seen) != 1 or [(k, v) for k, v in seen[0][1] if True] != exp and \
                [(k.lower(), v) for k, v in seen[0][1]] != [(k.lower(), v) for k, v in exp]:
            return ("response:merge-onto-app", "merge_cookies(app) started the response with %r, expected %r" % (seen, exp))
    return None


APP_HEADERS = [[], [["Content-Type", "text/plain"]], [["Content-Type", "text/plain"], ["Set-Cookie", "own=1; Path=/"]],
               [["set-cookie", "a=app"], ["X-App", "1"]], [["Set-Cookie", "b=1"], ["Set-Cookie", "b=2; Path=/x"]]]


def gen_app_case(rng, empty_ok=True):
    """merge_cookies onto a plain WSGI application: operations on the responses, then the merge, then the wrapped and
    the bare application called again and again with further operations in between."""
    c = gen_response_case(rng, 4, True, empty_ok)
    calls = []
    for _ in range(rng.randrange(2, 7)):
        x = rng.random()
        calls.append(("w",) if x < 0.55 else ("b",) if x < 0.8 else ("op", gen_xop(rng, True, empty_ok)))
    return {"kind": "app", "init": c["init"], "pre": c["ops"], "app_headers": rng.choice(APP_HEADERS),
            "reuse": rng.random() < 0.6, "calls": calls, "rcfg": c["rcfg"]}


def run_app_impl(case):
    """What run_merge_app_u computes, on the real code: response 0's header list at merge time, then per call
    [what start_response received, the application's own list] (or [result, header list] for an operation), then the
    application's own list.  Also the rendered dates (model input) and whether merge_cookies returned the app itself."""
    own = [tuple(h) for h in case["app_headers"]]
    reuse = case["reuse"]

    def app(environ, start_response):
        start_response("200 OK", own if reuse else list(own))
        return [b"body"]
    out, dates_pre, dates_calls = [], [], []
    with FrozenClock():
        rs = new_responses(case["init"], case.get("rcfg", 0))
        start = [hl_obs(x) for x in rs]
        for o in case["pre"]:
            r = apply_xop(rs, o)
            date = ""
            if o[0] == "set" and r is None:
                m = re.search(r"expires=([^;]*)", rs[o[1]].headerlist[-1][1])
                date = m.group(1) if m else ""
            dates_pre.append(date)
        out.append(hl_obs(rs[0]))
        wrapped = catch(rs[0].merge_cookies, app)
        if isinstance(wrapped, Err):
            return [wrapped], dates_pre, dates_calls, False, start

        def call(a):
            seen = []
            body = catch(a, {"REQUEST_METHOD": "GET"}, lambda status, headers, exc_info=None: seen.append([list(h) for h in headers]))
            if isinstance(body, Err):
                return body
            if list(body) != [b"body"] or len(seen) != 1:
                return Err("application-not-called-through")
            return seen[0]
        for c in case["calls"]:
            date = ""
            if c[0] == "w":
                out.append([call(wrapped), [list(h) for h in own]])
            elif c[0] == "b":
                out.append([call(app), [list(h) for h in own]])
            else:
                o = c[1]
                r = apply_xop(rs, o)
                if o[0] == "set" and r is None:
                    m = re.search(r"expires=([^;]*)", rs[o[1]].headerlist[-1][1])
                    date = m.group(1) if m else ""
                out.append([r, hl_obs(rs[0])])
            dates_calls.append(date)
        out.append([list(h) for h in own])
    return out, dates_pre, dates_calls, wrapped is app, start


def oracle_app(case):
    """Every answer of the wrapped application = the application's own headers followed by the Set-Cookie headers the
    response carried when merge_cookies was called, once; the bare application and its own list object are unchanged."""
    out, _, _, same, _ = run_app_impl(case)
    if isinstance(out[0], Err) or len(out) < 2:
        return ("merge-cookies-app:answer-differs", "merge_cookies(app) raised %r" % (out[-1],))
    own = [list(h) for h in case["app_headers"]]
    merged = [h for h in out[0] if h[0].lower() == "set-cookie"]
    if not merged and not same:
        return ("merge-cookies-app:answer-differs", "nothing to merge, yet merge_cookies did not return the application itself")
    for i, (c, row) in enumerate(zip(case["calls"], out[1:-1])):
        where = "call %d %r after merge_cookies(app) with Set-Cookie %r, app headers %r (%s list): " % (
            i, c, merged, own, "one reused" if case["reuse"] else "a fresh")
        if c[0] == "op":
            continue
        if row[1] != own:
            return ("merge-cookies-app:application-header-list-mutated", where + "the application's own header list is now %r" % (row[1],))
        want = own + merged if c[0] == "w" else own
        if row[0] != want:
            return ("merge-cookies-app:answer-differs", where + "start_response received %r, expected %r" % (row[0], want))
    if out[-1] != own:
        return ("merge-cookies-app:application-header-list-mutated", "the application's own header list ended as %r, it was %r" % (out[-1], own))
    return None


def c_acall(c, date=""):
    if c[0] == "w":
        return "ACallWrapped"
    if c[0] == "b":
        return "ACallBare"
    return "(AOp %s)" % c_xop(c[1], date)


def oracle_nonlatin(case):
    """OUTSIDE the model's domain: a Set-Cookie value that is not latin-1 (it cannot be sent, but it can sit in a header
    list).  What remains of the statement: unset_cookie / overwrite refuse with UnicodeEncodeError and change nothing;
    the operations that do not read the existing lines work as usual."""
    op = case["op"]
    with FrozenClock():
        rs = new_responses([[["Set-Cookie", l] for l in case["lines"]], []])
        before = hl_obs(rs[0])
        r = apply_xop(rs, op)
        after = hl_obs(rs[0])
        t = op[0]
        where = "%r on Set-Cookie lines %r: " % (op, case["lines"])
        if t == "unset" or (t == "set" and op[3]):
            if r != Err("UnicodeEncodeError") or after != before:
                return ("response:non-latin-1-line", where + "gave %r and left %r" % (r, after))
        elif t in ("set", "delete"):
            if r is not None or after[:-1] != before or len(after) != len(before) + 1:
                return ("response:non-latin-1-line", where + "gave %r and left %r" % (r, after))
        elif t == "merge":
            if r is not None or after != before or [v for k, v in hl_obs(rs[1])] != case["lines"]:
                return ("response:non-latin-1-line", where + "gave %r, target carries %r" % (r, hl_obs(rs[1])))
    return None


def oracle(case):
    if case.get("kind") == "nonlatin":
        return oracle_nonlatin(case)
    if case.get("kind") == "app":
        return oracle_app(case)
    if case.get("kind") == "request":
        return oracle_request(case)
    if case.get("kind") == "response":
        return oracle_response(case)
    return None


def to_json(case):
    c = dict(case)
    if c["kind"] == "nonlatin":
        c["op"] = j_xop(c["op"])
        return c
    if c["kind"] == "app":
        c["pre"] = [j_xop(o) for o in c["pre"]]
        c["calls"] = [[x[0]] if x[0] != "op" else ["op", j_xop(x[1])] for x in c["calls"]]
        return c
    if c["kind"] == "request":
        c["ops"] = [j_rop(o) for o in c["ops"]]
        c["header"] = jtext(c["header"])
        c["intent"] = None if c.get("intent") is None else [[k, v.hex()] for k, v in c["intent"]]
    else:
        c["ops"] = [j_xop(o) for o in c["ops"]]
    return c


def from_json(c):
    c = dict(c)
    if c["kind"] == "nonlatin":
        c["op"] = unj_xop(c["op"])
        return c
    if c["kind"] == "app":
        c["pre"] = [unj_xop(o) for o in c["pre"]]
        c["calls"] = [(x[0],) if x[0] != "op" else ("op", unj_xop(x[1])) for x in c["calls"]]
        return c
    if c["kind"] == "request":
        c["ops"] = [unj_rop(o) for o in c["ops"]]
        c["header"] = untext(c["header"])
        c["intent"] = None if c.get("intent") is None else [(k, bytes.fromhex(v)) for k, v in c["intent"]]
    else:
        c["ops"] = [unj_xop(o) for o in c["ops"]]
    return c


# =========================================================================== the check
def impl_scan(hb):
    """finditer as [[gap, group(1), text between the groups, group(2)] ...] and the text after the last match."""
    out, prev = [], 0
    for m in C()._rx_cookie.finditer(hb):
        out.append([hb[prev:m.start()], m.group(1), hb[m.end(1):m.start(2)], m.group(2)])
        if m.start(1) != m.start() or m.end(2) != m.end():
            return Err("span-is-not-key-to-value")
        prev = m.end()
    return [out, hb[prev:]]


def corr_simple(ctx, name, fn, in_type, inputs, impl, lit):
    cases = []
    seen = set()
    for x in inputs:
        l = lit(x)
        if l in seen:
            continue
        seen.add(l)
        cases.append((l, catch(impl, x), {"kind": name, "input": fw.jsonable(x)}))
    bad = ctx.corr(name, IMPORTS, fn, cases, in_type=in_type)
    for i in bad[:5]:
        ctx.broken.append("correspondence %s: model and implementation disagree on %s (implementation gives %r)"
                          % (name, json.dumps(cases[i][2]), cases[i][1]))
    return bad


_SEEN_KEYS = set()


def shrink(case, key):
    """Smallest variant (fewer operations, fewer initial headers) on which the oracle still fails with the same key."""
    best = case
    progress = True
    while progress:
        progress = False
        cands = []
        if best["kind"] == "nonlatin":
            return best
        if best["kind"] == "app":
            for fld in ("pre", "calls"):
                for i in range(len(best[fld])):
                    c = dict(best)
                    c[fld] = best[fld][:i] + best[fld][i + 1:]
                    cands.append(c)
        ops = best.get("ops", [])
        for i in range(len(ops)):
            c = dict(best)
            c["ops"] = ops[:i] + ops[i + 1:]
            if c["ops"]:
                cands.append(c)
        if best["kind"] in ("response", "app"):
            for w in (0, 1):
                for i in range(len(best["init"][w])):
                    c = dict(best)
                    c["init"] = [list(x) for x in best["init"]]
                    del c["init"][w][i]
                    cands.append(c)
        for c in cands:
            try:
                r = oracle(c)
            except Exception:  # noqa
                r = None
            if r and r[0] == key:
                best, progress = c, True
                break
    return best


def report(ctx, case, source):
    res = oracle(case)
    if res:
        if res[0] not in _SEEN_KEYS:
            _SEEN_KEYS.add(res[0])
            case = shrink(case, res[0])
            res = oracle(case) or res
        ctx.fail(res[0], res[1], to_json(case), True, source)
    return res


# every implementation object the Gallina model (Model/C15_Scan.v, Model/C15_CookieJar.v) mirrors by hand
MODELLED = [
    # scanner / codec (C15_Scan.v)
    "webob.cookies:_rx_cookie", "webob.cookies:_rx_unquote", "webob.cookies:_unquote", "webob.cookies:_ch_unquote",
    "webob.cookies:_value_quote", "webob.cookies:_path_quote", "webob.cookies:_valid_cookie_name",
    "webob.cookies:_parse_cookie", "webob.cookies:parse_cookie",
    # request side (C15_CookieJar.v)
    "webob.cookies:RequestCookies._cache", "webob.cookies:RequestCookies._mutate_header",
    "webob.cookies:RequestCookies._valid_cookie_name", "webob.cookies:RequestCookies.__setitem__",
    "webob.cookies:RequestCookies.__delitem__", "webob.cookies:RequestCookies.clear",
    "webob.request:BaseRequest.cookies", "webob.request:BaseRequest.cookies.fset",
    "webob.util:bytes_", "webob.util:text_",
    # response side (C15_CookieJar.v)
    "webob.cookies:make_cookie", "webob.cookies:Morsel.__init__", "webob.cookies:Morsel.__setitem__",
    "webob.cookies:Morsel.serialize", "webob.cookies:cookie_property", "webob.cookies:serialize_max_age",
    "webob.cookies:serialize_samesite", "webob.cookies:serialize_cookie_date", "webob.cookies:SAMESITE_VALIDATION",
    "webob.response:Response.set_cookie", "webob.response:Response.delete_cookie", "webob.response:Response.unset_cookie",
    "webob.response:Response.merge_cookies", "webob.headers:ResponseHeaders.getall", "webob.headers:ResponseHeaders.get",
    "webob.multidict:MultiDict.add",
]
# what gen() translates into coq/Gen/C15_tables.v (tables read from the live module; regex shapes checked, fail-closed)
REGENERATED = [
    "webob.cookies:_allowed_cookie_bytes", "webob.cookies:_valid_token_bytes", "webob.cookies:_escape_map",
    "webob.cookies:_path_quote", "webob.cookies:_ch_unquote_map", "webob.cookies:_c_keys", "webob.cookies:_c_renames",
    "webob.cookies:_c_valkeys", "webob.cookies:serialize_samesite", "webob.cookies:_rx_cookie", "webob.cookies:_rx_unquote",
]
# exercised by the oracle only (reads through a view, the cache entry, the module flag left at its default)
ORACLE_ONLY = [
    "webob.cookies:RequestCookies.__init__", "webob.cookies:RequestCookies.__getitem__", "webob.cookies:RequestCookies.get",
    "webob.cookies:RequestCookies.keys", "webob.cookies:RequestCookies.values", "webob.cookies:RequestCookies.items",
    "webob.cookies:RequestCookies.__contains__", "webob.cookies:RequestCookies.__iter__", "webob.cookies:RequestCookies.__len__",
    # MutableMapping mix-ins built on the three primitives (stdlib): pop, setdefault, popitem, update
    "webob.cookies:RequestCookies.pop", "webob.cookies:RequestCookies.setdefault", "webob.cookies:RequestCookies.popitem",
    "webob.cookies:RequestCookies.update",
    # configurations: strict quoting (module flag / warnings filter); SAMESITE_VALIDATION itself is a model input
    "webob.cookies:_should_raise", "webob.request:BaseRequest.charset", "webob.request:BaseRequest.url_encoding",
    "webob.response:Response.default_charset", "webob.response:Response.default_content_type",
]


def run(ctx):
    warnings.simplefilter("ignore")
    _SEEN_KEYS.clear()
    del _LEGAL[:]
    ctx.modelled(MODELLED)
    ctx.extra["regenerated_from_source"] = REGENERATED
    ctx.extra["oracle_only"] = ORACLE_ONLY
    for p in gen(ctx):
        ctx.broken.append(p)
    ctx.build(["Props/C15.vo"])
    ck = C()
    tabs = read_tables()[0]
    REQ_VALUES[:] = TEXT_VALUES + (BRACKET_VALUES if set(tabs["allowed"]) <= set(tabs["legal"]) else [])
    n = ctx.scale(500, 5000)
    maxlen = ctx.scale(6, 12)

    # ------------------------------------------------------------------ correspondence
    rng = ctx.sub_rng("corr")
    singles = [bytes([i]) for i in range(256)]
    hdrs = []
    for _ in range(n):
        cls = rng.choice(["W", "T", "T", "G", "G"])
        hdrs.append(gen_garbage(rng) if cls == "G" else gen_header(rng, cls)[0])
    # headers that end inside a quoted string / an escape (class 'Q')
    hdrs += OPEN_HEADERS + [gen_open_header(rng) for _ in range(n // 12)]
    with FrozenClock():
        for _ in range(n // 4):
            c = gen_response_case(rng, 3)
            rs = new_responses(c["init"], c["rcfg"])
            for o in c["ops"]:
                apply_xop(rs, o)
            hdrs += [v for r in rs for k, v in r.headerlist if k.lower() == "set-cookie" and len(v) < 120]
    hb = [h.encode("latin-1") for h in hdrs if all(ord(ch) < 256 for ch in h)] + singles[:128]
    corr_simple(ctx, "scan", "scan_val", "str", hb, impl_scan, cstr)
    corr_simple(ctx, "parse_cookie", "(fun s => pairs_val (parse_cookie s))", "str", hb,
                lambda b: [list(kv) for kv in ck.parse_cookie(b.decode("latin-1"))], cstr)
    vals = singles + [t.encode("utf-8", "surrogatepass") for t in TEXT_VALUES + BRACKET_VALUES] + \
        [bytes(rng.choice(b"aZ0!#$%&'*+-.^_`|~ ;=,\"[]()/:@\\\x7f\x80\xe9\n") for _ in range(rng.randrange(0, 6))) for _ in range(n // 2)]
    corr_simple(ctx, "value_quote", "(fun v => VStr (value_quote v))", "str", vals, ck._value_quote, cstr)
    corr_simple(ctx, "path_quote", "(fun v => VStr (path_quote v))", "str", vals, ck._path_quote, cstr)
    quoted = [ck._value_quote(v) for v in vals] + [raw.encode("latin-1") for raw, _ in VALUES_W + VALUES_T] + \
        [b"".join(rng.choice([b'"', b"\\", b"0", b"3", b"7", b"8", b"4", b"a", b"\n", b" ", b"\\1", b"\\37"])
                  for _ in range(rng.randrange(0, 8))) for _ in range(n // 2)]
    corr_simple(ctx, "unquote", "(fun v => VStr (unquote v))", "str", quoted, ck._unquote, cstr)
    names = [x.encode("latin-1", "replace") for x in GOOD_NAMES + BAD_NAMES + ATTR_KEYS + list(RESERVED)] + singles
    corr_simple(ctx, "valid_cookie_name", "(fun k => res_val VBool (valid_cookie_name_res k))", "str", names,
                ck._valid_cookie_name, cstr)

    cases = []
    # the witnesses of C15_open_quote_refuted / C15_dangling_escape_refuted and their neighbours, then random histories
    fixed = [{"kind": "request", "class": "Q", "header": h, "intent": None, "ops": list(ops), "held": False, "rcfg": 0, "strictq": 0}
             for h in OPEN_HEADERS + ['$Version = ";']
             for ops in ([("set", "A", "a b")], [("set", "A", "1"), ("set", "ab", "\\")], [("set", "x", "2"), ("del", "x")])]
    for i in range(n + len(fixed)):
        c = fixed[i] if i < len(fixed) else gen_request_case(rng, maxlen)
        out = run_request_impl(c["header"], c["ops"], c["held"], c["rcfg"])
        lit = cpair("None" if c["header"] is None else "(Some %s)" % cstr(c["header"]),
                    clist(c_rop(o) for o in c["ops"] if o[0] != "read"))
        cases.append((lit, out, c))
    # the theorems' domain predicate: Coq's wf_headerb against the harness's in_class on every header these histories
    # start from or pass through (in_class decides where the oracle owes the dict-model comparison)
    seen_h = {}
    for _, out, c in cases:
        for row in out:
            h = row[0] if len(row) == 2 else row[1]
            if isinstance(h, str) and all(ord(ch) < 256 for ch in h):
                seen_h.setdefault(h.encode("latin-1"), None)
    for b in hb:
        seen_h.setdefault(b, None)
    corr_simple(ctx, "wf-header", "(fun s => VBool (wf_headerb s))", "str", list(seen_h),
                lambda b: in_class(b.decode("latin-1")), cstr)
    ctx.extra["in_class_share"] = round(sum(1 for b in seen_h if in_class(b.decode("latin-1"))) / max(1, len(seen_h)), 3)
    bad = ctx.corr("request-jar", IMPORTS, "(fun c => run_request_u (fst c) (snd c))",
                   [(l, o, to_json(c)) for l, o, c in cases], in_type="(option str * list rop)")
    for i in bad[:8]:
        if not report(ctx, cases[i][2], "corr"):
            ctx.broken.append("correspondence request-jar: model and implementation disagree on %s (implementation gives %r)"
                              % (json.dumps(to_json(cases[i][2])), cases[i][1]))
    nh = ctx.scale(350, 5000)      # histories are the expensive literals: fewer in the quick tier
    cases = []
    for i in range(nh):
        c = gen_response_case(rng, maxlen)
        out, dates, start = run_response_impl(c["init"], c["ops"], c["rcfg"])
        lit = cpair(cpair(clist(cpair(cstr(k), cstr(v)) for k, v in start[0]), clist(cpair(cstr(k), cstr(v)) for k, v in start[1])),
                    clist(c_xop(o, d) for o, d in zip(c["ops"], dates)))
        cases.append((lit, out, c))
    bad = ctx.corr("response-cookies", IMPORTS, "(fun c => run_response_u (fst c) (snd c))",
                   [(l, o, to_json(c)) for l, o, c in cases],
                   in_type="((list (str * str) * list (str * str)) * list xop)")
    def plain_first(i):       # report witnesses made of API calls only before those needing odd raw headers
        c = cases[i][2]
        return (any(o[0] == "raw" for o in c["ops"]) or any(k.lower() == "set-cookie" for hl in c["init"] for k, _ in hl), i)
    for i in sorted(bad, key=plain_first)[:8]:
        if not report(ctx, cases[i][2], "corr"):
            ctx.broken.append("correspondence response-cookies: model and implementation disagree on %s (implementation gives %r)"
                              % (json.dumps(to_json(cases[i][2])), cases[i][1]))

    cases = []
    for i in range(nh):
        c = gen_app_case(rng)
        out, dpre, dcalls, _, start = run_app_impl(c)
        lit = cpair(cpair(cpair(clist(cpair(cstr(k), cstr(v)) for k, v in start[0]), clist(cpair(cstr(k), cstr(v)) for k, v in start[1])),
                          clist(c_xop(o, d) for o, d in zip(c["pre"], dpre))),
                    cpair(clist(cpair(cstr(k), cstr(v)) for k, v in c["app_headers"]),
                          clist(c_acall(x, d) for x, d in zip(c["calls"], dcalls))))
        cases.append((lit, out, c))
    bad = ctx.corr("merge-app", IMPORTS, "run_merge_app_u", [(l, o, to_json(c)) for l, o, c in cases],
                   in_type="((list (str * str) * list (str * str)) * list xop * (list (str * str) * list acall))")
    for i in bad[:8]:
        if not report(ctx, cases[i][2], "corr"):
            ctx.broken.append("correspondence merge-app: model and implementation disagree on %s (implementation gives %r)"
                              % (json.dumps(to_json(cases[i][2])), cases[i][1]))

    # ------------------------------------------------------------------ oracle sweep on the public API
    run_oracle(ctx)
    ctx.extra["rule"] = (
        "correspondence: scanner/codec functions on headers assembled from pieces (classes W, T), random garbage and "
        "Set-Cookie lines produced by webob; RequestCookies and Response histories (<= %d steps) compared step by step "
        "(result/exception, HTTP_COOKIE text, dict(req.cookies); full header lists of two responses); distinct = distinct "
        "Coq input literals.  oracle: reference dict / reference list of Set-Cookie lines against the public API after "
        "every step, exhaustively for short op sequences over names {a, A, ab, b} x selected headers, and on random "
        "longer histories; a case is non-trivial when at least one step changed the jar / the header list.  Statefulness: "
        "half of the request histories go through ONE held RequestCookies view, read-only accesses (get/in/len/items/"
        "keys/values/iter/[]) are interleaved and must change nothing; before every step a brand-new Request / brand-new "
        "Responses over the same header text must answer the step exactly like the long-lived objects; the dict assigned to "
        "request.cookies must come back unchanged; merge_cookies onto a plain WSGI application is exercised with a fresh "
        "header list per call and with ONE reused list object, the wrapped application called several times and the bare "
        "one in between and afterwards (answers = app headers + merged cookies once, the application's list unchanged); "
        "450 cases are re-run in reversed and shuffled order within the process and must answer identically.  Class Q "
        "(7%% of the random request histories in correspondence and oracle, plus every history of length <= depth over 10 "
        "operations x 9 fixed headers such as x=\", a=1; x=\", x=\"; b=2, $Version= \", x=\"abc, x=\\): pre-existing "
        "headers with an odd number of unescaped double quotes or a dangling backslash" % maxlen)
    ctx.extra["exhaustive"] = False
    ctx.extra["exhaustive_part"] = ("request: all op sequences of length <= %d over %d ops x %d headers; response: all op sequences "
                               "of length <= %d over %d ops" % (ctx.scale(2, 3), len(small_rops()), len(SMALL_HEADERS),
                                                                  ctx.scale(2, 3), len(small_xops())))
    ctx.assume += [
        "the Cookie header is a latin-1 native string (WSGI); cookie names and values handed to the API are str",
        "request-side statement is checked (and proved) on tokenisable headers: name=value pairs whose value is an "
        "unquoted legal run or a quoted string, separated by text that starts with ';' (any '='-free junk, flags, doubled "
        "separators, stray quotes may follow); the oracle additionally runs backslash forms, date-shaped values and "
        "separators made of ',' (white space alone is not a separator: an empty value would swallow what follows).  On arbitrary garbage (pairs glued without "
        "separator) only robustness, KeyError-iff-absent and agreement with a fresh Request are checked",
        "a pre-existing header that ends inside a quoted string or an escape (odd number of unescaped double quotes / dangling "
        "backslash; class 'Q', decided on the header text by open_tail) is NOT excluded: the reference dict there is what "
        "the implementation read before the step with the one operation applied, and a step that loses the assigned cookie "
        "or changes an untouched one is reported under its own key request-jar:unbalanced-quote-in-existing-header "
        "(Coq: C15_open_quote_refuted, C15_dangling_escape_refuted show the faithful model does exactly this)",
        "values containing '[' or ']' are used on the request side only when the regenerated tables say that every octet "
        "emitted bare is legal on input (premise plain_ok of the theorems); on a tree without that they are emitted unquoted "
        "and read back truncated, which is C07's finding (alphabet mismatch), not a jar-edit defect",
        "an empty Set-Cookie header value (not producible through the cookie API) is outside the response oracle: "
        "merge_cookies treats a last empty value as 'nothing to merge' (modelled faithfully, covered by correspondence)",
        "set_cookie(overwrite=True) with arguments that are refused may already have removed the old cookie of that name "
        "(unset runs first); other names are untouched",
        "SAMESITE_VALIDATION is a per-call input of the model (both settings exercised); expiry dates of max_age cookies "
        "are an abstract input of the model (C07 checks them)",
        "the model's inputs are str names/values (anything else = 'not a str'), int max_age, latin-1 header text; the oracle "
        "also visits bytes/int/None names and values, raw non-UTF-8 byte values, max_age as text/float/out-of-range int, "
        "non-latin-1 Cookie and Set-Cookie text and checks what remains of the statement there (stated refusal, nothing "
        "changes, views coherent)",
    ]
    ctx.trusted += [
        "harness/props/c15.py gen(): reading of the alphabets/tables from the live module and the structural comparison of "
        "_rx_cookie/_rx_unquote (CPython re._parser tree) with the shape the hand scanner mirrors",
        "CPython's re engine semantics for that shape (lazy/greedy/backtracking order, spans) as transcribed in "
        "Model/C15_Scan.v - validated by the scan correspondence, not verified",
        "CPython's utf-8 codec: a Section variable of the model with the law decode(encode t) = t as the only assumption "
        "of the theorems; the correspondence runs the model with Lib/C15_Utf8.v",
        "the reference dict / reference Set-Cookie list and the RFC 6265 first-pair name reader in harness/props/c15.py",
    ]


# ----------------------------------------------------------------------------- oracle sweep
SMALL_HEADERS = [None, "", "a=1", "a=1; b=2", "ab=1; a=2; A=3", "a=1; a=2", "b=0; a=1; ab=2; a=3",
                 "$Version=1; a=1; $Path=/; b=\"x; a=9\"", "a = 1 ;; secure; b=2;", "A=\"q r\"; HttpOnly; ab=x=y", "; a=1; ",
                 "a=\"x\\073y\"; b=", "a; ab; b=1", "a=\\;; b=2", "a=1; n=\"\\377\"; c=3"]
SMALL_INTENT = [[], [], [("a", b"1")], [("a", b"1"), ("b", b"2")], [("ab", b"1"), ("a", b"2"), ("A", b"3")], [("a", b"1"), ("a", b"2")],
                [("b", b"0"), ("a", b"1"), ("ab", b"2"), ("a", b"3")], [("a", b"1"), ("b", b"x; a=9")], [("a", b"1"), ("b", b"2")],
                [("A", b"q r"), ("ab", b"x=y")], [("a", b"1")], [("a", b"x;y"), ("b", b"")], [("b", b"1")], [("a", b";"), ("b", b"2")], [("a", b"1"), ("n", b"\xff"), ("c", b"3")]]


def small_rops():
    u = []
    for k in NAMES:
        u.append(("set", k, "7"))
        u.append(("del", k))
    u.append(("set", "a", "x; b=2"))
    u.append(("set", "ab", ""))
    u.append(("set", "$a", "1"))
    u.append(("del", "path"))
    u.append(("clear",))
    u.append(("assign", [("b", "5"), ("A", "é")]))
    u.append(("assign", [], "self"))
    u.append(("assign", [("b", "5"), ("a b", "x")]))
    u.append(("pop", "a", False))
    u.append(("setdefault", "b", "9"))
    u.append(("set", b"a", "1"))
    return u


KEPT_LINE = "k=v; Path=/; secure; HttpOnly; SameSite=None"     # a cookie none of the operations names


def small_xops():
    base = {"max_age": None, "path": "/", "domain": None, "comment": None, "secure": False, "httponly": False, "samesite": None}
    u = []
    for k in NAMES:
        u.append(("set", 0, dict(base, name=k, value="1"), False))
        u.append(("set", 0, dict(base, name=k, value="2; x", secure=True, httponly=True, samesite="None"), True))
        u.append(("unset", 0, k, True))
    u.append(("set", 0, dict(base, name="b", value="3", samesite="none"), True))
    u.append(("set", 1, dict(base, name="a", value="4", secure=True, path="/p q", max_age=60), False))
    u.append(("delete", 0, "a", "/", None))
    u.append(("delete", 0, "ab", "/x", "d.example"))
    u.append(("unset", 0, "A", False))
    u.append(("merge", 0))
    u.append(("merge", 1))
    u.append(("mergeself", 0))
    u.append(("set", 0, dict(base, name="a", value="9", samesite="bogus"), True))
    u.append(("raw", 0, "Set-Cookie", "z=1; Priority=High; Partitioned"))
    u.append(("set", 0, dict(base, name="ab", value="é", secure=True, samesite="future", validate=False,
                             shape={"pos": 9, "name_bytes": True, "value": "bytes", "int_flags": True}), True))
    u.append(("unset", 0, "ab", True, {"pos": True, "name_bytes": True}))
    return u


def run_oracle(ctx):
    depth = ctx.scale(2, 3)
    cnt = nt = 0
    U = small_rops()
    for hi, h in enumerate(SMALL_HEADERS):
        for d in range(1, depth + 1):
            for ops in itertools.product(U, repeat=d):
                case = {"kind": "request", "class": "W", "header": h, "intent": SMALL_INTENT[hi], "ops": list(ops),
                        "held": cnt % 2 == 1, "rcfg": cnt % N_QCFG}
                cnt += 1
                nt += any(o[0] != "del" or valid_name_ref(o[1]) for o in ops)
                report(ctx, case, "exhaustive-request")
    ctx.oracle_count("exhaustive-request", cnt, nt)
    # headers that end inside a quoted string / an escape (class 'Q'): every short history of assignments and deletions
    cnt = 0
    UQ = [("set", "A", "a b"), ("set", "A", "1"), ("set", "ab", "\\"), ("set", "x", "2"), ("set", "b", "x; b=2"), ("del", "x"),
          ("del", "b"), ("read", "x"), ("pop", "a", True), ("setdefault", "A", "q\"r")]
    for h in OPEN_HEADERS + ['$Version = ";', 'x="a\\', 'a=1; x="abc; b=2']:
        for d in range(1, depth + 1):
            for ops in itertools.product(UQ, repeat=d):
                case = {"kind": "request", "class": "Q", "header": h, "intent": None, "ops": list(ops),
                        "held": cnt % 2 == 1, "rcfg": cnt % N_QCFG}
                cnt += 1
                report(ctx, case, "exhaustive-open-quote-request")
    ctx.oracle_count("exhaustive-open-quote-request", cnt, cnt)
    cnt = 0
    X = small_xops()
    for d in range(1, depth + 1):
        for ops in itertools.product(X, repeat=d):
            case = {"kind": "response", "init": [[["Content-Type", "text/plain"], ["Set-Cookie", KEPT_LINE]], []], "ops": list(ops),
                    "rcfg": cnt % N_RCFG}
            cnt += 1
            report(ctx, case, "exhaustive-response")
    ctx.oracle_count("exhaustive-response", cnt, cnt)
    r2 = ctx.sub_rng("oracle-request")
    m = ctx.scale(4000, 60000)
    nt = 0
    for _ in range(m):
        case = gen_request_case(r2, 12, None, True)
        nt += case["class"] not in ("G", "Q")
        report(ctx, case, "random-request")
    ctx.oracle_count("random-request", m, nt)
    r3 = ctx.sub_rng("oracle-response")
    m = ctx.scale(2500, 40000)
    for _ in range(m):
        report(ctx, gen_response_case(r3, 12, True, False, True), "random-response")
    ctx.oracle_count("random-response", m, m)
    # outside the model's domain: a Set-Cookie value that is not latin-1
    cnt = 0
    base0 = {"max_age": None, "path": "/", "domain": None, "comment": None, "secure": False, "httponly": False, "samesite": None}
    for lines in (["a=\u20ac"], ["a=1", "b=\u20ac; Path=/"], ["\u20ac", "a=1"]):
        for op in (("unset", 0, "a", True), ("unset", 0, "zz", False), ("set", 0, dict(base0, name="a", value="2"), True),
                   ("set", 0, dict(base0, name="c", value="2"), False), ("delete", 0, "a", "/", None), ("merge", 0)):
            cnt += 1
            report(ctx, {"kind": "nonlatin", "lines": lines, "op": op}, "non-latin-1-lines")
    ctx.oracle_count("non-latin-1-lines", cnt, cnt)
    # merge_cookies onto a plain WSGI application: a fresh header list per call / ONE reused list object; the wrapped
    # application called several times, the bare one afterwards
    cnt = 0
    base = {"max_age": None, "path": "/", "domain": None, "comment": None, "secure": False, "httponly": False, "samesite": None}
    pres = [[], [("set", 0, dict(base, name="a", value="1", secure=True, httponly=True, samesite="none"), False),
                 ("set", 0, dict(base, name="b", value="2"), False)],
            [("set", 0, dict(base, name="a", value="1"), False), ("delete", 0, "a", "/", None)]]
    for pre in pres:
        for apph in APP_HEADERS:
            for reuse in (False, True):
                for calls in itertools.product([("w",), ("b",), ("op", ("set", 0, dict(base, name="c", value="3"), False))],
                                               repeat=ctx.scale(3, 4)):
                    cnt += 1
                    report(ctx, {"kind": "app", "init": [[["Content-Type", "text/html"]], []], "pre": pre, "app_headers": apph,
                                 "reuse": reuse, "calls": list(calls)}, "exhaustive-merge-app")
    ctx.oracle_count("exhaustive-merge-app", cnt, cnt)
    r4 = ctx.sub_rng("oracle-merge-app")
    m = ctx.scale(1500, 20000)
    for _ in range(m):
        report(ctx, gen_app_case(r4, False), "random-merge-app")
    ctx.oracle_count("random-merge-app", m, m)
    # module-level state: the same cases in another order within this process must give the same answers
    r5 = ctx.sub_rng("oracle-order")
    k = ctx.scale(150, 1500)
    rq = [gen_request_case(r5, 8) for _ in range(k)]
    rp = [gen_response_case(r5, 8) for _ in range(k)]
    ap = [gen_app_case(r5) for _ in range(k)]

    def answers(order):
        out = {}
        for kind, i in order:
            if kind == 0:
                out[(kind, i)] = run_request_impl(rq[i]["header"], rq[i]["ops"], rq[i]["held"], rq[i]["rcfg"])
            elif kind == 1:
                out[(kind, i)] = run_response_impl(rp[i]["init"], rp[i]["ops"], rp[i]["rcfg"])[0]
            else:
                out[(kind, i)] = run_app_impl(ap[i])[0]
        return out
    order = [(kind, i) for i in range(k) for kind in (0, 1, 2)]
    first = answers(order)
    shuffled = list(order)
    r5.shuffle(shuffled)
    for name, o2 in (("reversed", list(reversed(order))), ("shuffled", shuffled)):
        again = answers(o2)
        for key_ in order:
            if again[key_] != first[key_]:
                case = (rq, rp, ap)[key_[0]][key_[1]]
                ctx.fail("order-dependence", "the same case answers differently when the cases of this run are executed in %s "
                         "order: %r then, %r now" % (name, first[key_], again[key_]), to_json(case), True, "order-independence")
    ctx.oracle_count("order-independence", 3 * k * 3, 3 * k)


def replay(ctx, path):
    data = json.load(open(path))
    case = data.get("case") or {}
    if case.get("kind") not in ("request", "response", "app", "nonlatin"):
        print("replay: nothing executable in this file (broken obligation): %s" % data.get("what"))
        return 1
    warnings.simplefilter("ignore")
    res = oracle(from_json(case))
    if res:
        print("VIOLATION property=C15 replay=%s" % path)
        print("  (%s) %s" % res)
        return 1
    print("replay passes on the current tree")
    return 0
