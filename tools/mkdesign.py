"""Regenerates section 11 of DESIGN.md from design_notes/SECTION11.md (prose with {{TABLE_*}} placeholders) and the
current tree (Props files, coq/Gen, KNOWN_FINDINGS.txt, seeded/*/meta.json)."""
import glob
import json
import os
import re

ROOT = os.path.dirname(os.path.dirname(os.path.abspath(__file__)))


def esc(s):
    return s.replace("|", "\\|")


def main():
    design = open(ROOT + "/DESIGN.md").read()
    i = design.find("\n## 11. As built")
    if i > 0:
        design = design[:i]
    marker = "Status of this file: written before any framework code (round 0)."
    if marker in design:
        design = design.replace(marker, "Status of this file: sections 1-10 and Appendix A were written before any framework code "
                                "(round 0) and are kept as the plan; **section 11 (at the end) records what was actually built and "
                                "supersedes the plan wherever they differ.**", 1)
    rows = []
    for k in range(1, 21):
        pid = "C%02d" % k
        t = open("%s/coq/Props/%s.v" % (ROOT, pid)).read()
        names = re.findall(r"^\s*(?:Theorem|Lemma|Corollary)\s+(\w+)", t, flags=re.M)
        part = [n for n in names if n.endswith("_partial")]
        ref = [n for n in names if n.endswith("_refuted")]
        gen = sorted(os.path.basename(f) for f in glob.glob("%s/coq/Gen/%s*.v" % (ROOT, pid)))
        jf = "%s/design_notes/%s.json" % (ROOT, pid)
        tech = json.load(open(jf))["technique"] if os.path.exists(jf) else \
            "Coq refinement proof (code-shaped model = list model, induction over histories) + correspondence + list-model oracle"
        rows.append("| %s | %d (%d / %d) | %s | %s |" % (pid, len(names), len(part), len(ref), ", ".join(gen) or "—", esc(tech)))
    tab = ("| prop | theorems in Props/ (of which `_partial` / `_refuted`) | regenerated from /repo on every run (coq/Gen/) | "
           "deciding method |\n|---|---|---|---|\n" + "\n".join(rows) + "\n")
    kf = open(ROOT + "/KNOWN_FINDINGS.txt").read().split("\n")
    fixtab = "| property | commit in /repo | what failed on the pinned tree |\n|---|---|---|\n"
    for l in kf:
        m = re.match(r"fixed: property=(\S+) (\w+) (.*)", l)
        if m:
            fixtab += "| %s | `%s` | %s |\n" % (m.group(1), m.group(2), esc(m.group(3)))
    fintab = "| property | key | what fails (concrete input) |\n|---|---|---|\n"
    for l in kf:
        m = re.match(r"finding: property=(\S+) key=(\S+) (.*)", l)
        if m:
            fintab += "| %s | `%s` | %s |\n" % (m.group(1), m.group(2), esc(m.group(3)))
    seedtab = ("| seeded change | what it does — what it needs to manifest | reported by `./check`? | violation keys (first few) |\n"
               "|---|---|---|---|\n")
    for d in sorted(glob.glob(ROOT + "/seeded/*/meta.json")):
        m = json.load(open(d))
        name = os.path.basename(os.path.dirname(d))
        c = m["check"]
        verdict = "yes" if c["detected"] else "NO"
        if c["detected"] and not c["violation_keys"]:
            verdict += " (no-failing-input-found)"
        if m.get("history"):
            verdict += " — " + m["history"]
        cr = m.get("confirmed_in_repo")
        if cr:
            verdict += "; applied to /repo itself: exit %d" % cr["exit"]
        seedtab += "| seeded/%s | %s — needs: %s | %s | %s |\n" % (
            name, esc((m.get("summary") or "")[:300]), esc((m.get("needs") or "")[:220]), verdict,
            esc(", ".join(c["violation_keys"][:4])))
    prose = open(ROOT + "/design_notes/SECTION11.md").read()
    prose = prose.replace("{{TABLE_PROPS}}", tab).replace("{{TABLE_FIXES}}", fixtab).replace("{{TABLE_FINDINGS}}", fintab) \
        .replace("{{TABLE_SEEDS}}", seedtab)
    open(ROOT + "/DESIGN.md", "w").write(design.rstrip("\n") + "\n\n\n" + prose)


if __name__ == "__main__":
    main()
