#!/bin/sh
# stage every file belonging to the given properties
cd /verif
for P in "$@"; do
  l=$(echo $P | tr A-Z a-z)
  for f in coq/Model/${P}*.v coq/Spec/${P}*.v coq/Proofs/${P}*.v coq/Props/${P}.v coq/Lib/${P}*.v harness/props/$l.py design_notes/${P}* fixes/${P}* evidence/${P}.json; do
    [ -e "$f" ] && git add "$f"
  done
done
git add -u fixes KNOWN_FINDINGS.txt MANIFEST.json harness/*.py 2>/dev/null
exit 0
