#!/bin/sh
# usage: tools/try_seed.sh Cxx [srcdir]  — confirm a seeded change and run the property's check against it
# (scratch worktree + WEBOB_REPO; the final confirmation pass applies the patch to /repo itself, see DESIGN.md)
P="$1"; SRC="${2:-/tmp/seed-$P}"; TAG="${3:-}"; D=/verif/seeded/$P$TAG; W=/tmp/chk-$P$TAG
mkdir -p $D
[ -f $SRC/patch.diff ] && cp $SRC/patch.diff $D/patch.diff
for f in $SRC/demo_*.py; do [ -f "$f" ] && cp $f $D/; done
[ -f $SRC/meta.json ] && cp $SRC/meta.json $D/meta.seed.json
git -C /repo worktree remove --force $W 2>/dev/null
git -C /repo worktree add $W HEAD >/dev/null 2>&1 || { echo "cannot create worktree"; exit 2; }
cd $W
if ! git apply $D/patch.diff 2>/dev/null; then
  git apply --3way $D/patch.diff 2>/dev/null || { echo "PATCH DOES NOT APPLY to current HEAD"; git -C /repo worktree remove --force $W; exit 3; }
fi
echo "== changed: $(git diff --stat | tail -1)"
T=$(PYTHONPATH=$W/src /venv/bin/python -m pytest -q -p no:cacheprovider --timeout=900 -o addopts="" tests 2>&1 | grep -E "passed|failed" | tail -1)
echo "== test-suite with change: $T"
DEMO=$(ls $D/demo_*.py | head -1)
PYTHONPATH=$W/src /venv/bin/python $DEMO >/tmp/demo_$P$TAG.out 2>&1; R1=$?
PYTHONPATH=/repo/src /venv/bin/python $DEMO >/tmp/demo0_$P$TAG.out 2>&1; R0=$?
echo "== demo exit with change: $R1 (want 1), on /repo: $R0 (want 0): $(head -c 300 /tmp/demo_$P$TAG.out | tr '\n' ' ')"
cd /verif
WEBOB_REPO=$W ./check $P > /tmp/chk_$P$TAG.out 2>&1; RC=$?
echo "== ./check $P against the change: exit $RC"
grep -E "^VIOLATION|^  \(|^C[0-9]+ (OK|FAILED)" /tmp/chk_$P$TAG.out | cut -c1-400 | head -12
git -C /repo worktree remove --force $W
# restore regenerated files / build products to /repo's state
./check $P > /tmp/chk_${P}${TAG}_restore.out 2>&1; echo "== ./check $P on /repo afterwards: exit $? $(grep -E '^C[0-9]+ (OK|FAILED)' /tmp/chk_${P}${TAG}_restore.out | cut -c1-40)"
/venv/bin/python - "$P" "$D" "$T" "$R1" "$R0" "$RC" "$TAG" <<'PY'
import json, sys, re, os
P, D, T, R1, R0, RC = sys.argv[1:7]
TAG = sys.argv[7] if len(sys.argv) > 7 else ""
seed = {}
try:
    seed = json.load(open(os.path.join(D, "meta.seed.json")))
except Exception:
    pass
out = open("/tmp/chk_%s%s.out" % (P, TAG)).read()
keys = re.findall(r"^  \(([^ ]+) x\d+\)", out, flags=re.M)
viol = re.findall(r"^VIOLATION .*$", out, flags=re.M)
meta = {
    "property": P,
    "summary": seed.get("summary"),
    "needs": seed.get("needs"),
    "origin": "written by an independent sub-agent that saw only the property text and a scratch worktree of /repo",
    "confirmed_by_maintainer": {
        "test_suite_with_change": T,
        "demo_exit_with_change": int(R1), "demo_exit_on_repo": int(R0),
    },
    "check": {"command": "WEBOB_REPO=<scratch worktree with patch.diff applied> ./check %s" % P,
              "exit": int(RC), "detected": int(RC) == 1 and bool(viol),
              "violation_keys": keys, "no_failing_input_found": any("no-failing-input-found" in v for v in viol)},
    "ran": ["git worktree add /tmp/chk-%s HEAD; git apply patch.diff" % P,
            "pytest tests (unedited) in the worktree: %s" % T,
            "demo with change -> exit %s; demo on /repo -> exit %s" % (R1, R0),
            "WEBOB_REPO=/tmp/chk-%s ./check %s -> exit %s" % (P, P, RC),
            "worktree removed; ./check %s on /repo afterwards passes" % P],
}
json.dump(meta, open(os.path.join(D, "meta.json"), "w"), indent=1)
PY
