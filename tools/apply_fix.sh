#!/bin/sh
# usage: tools/apply_fix.sh <patch> "<commit subject after 'fix: '>" "<body>"
# Applies only the src/ hunks of a patch to /repo, runs the unedited test-suite, commits as one "fix:" commit.
set -e
P="$1"; SUBJ="$2"; BODY="$3"
cd /repo
test -z "$(git status --porcelain)" || { echo "repo not clean"; exit 2; }
git apply --include='src/*' --3way "$P" 2>/dev/null || git apply --include='src/*' "$P" || patch -p1 --no-backup-if-mismatch < "$P"
git checkout -- tests 2>/dev/null || true
git status --short
/venv/bin/python -m pytest -q -p no:cacheprovider --timeout=900 -q tests 2>&1 | grep -E "passed|failed|error" | tail -2
if /venv/bin/python -m pytest -q -p no:cacheprovider --timeout=900 -q tests >/dev/null 2>&1; then
  git add -A src
  git commit -q -m "fix: $SUBJ" -m "$BODY"
  git log --oneline | head -1
else
  echo "TESTS FAIL — reverting"; git checkout -- . ; exit 1
fi
