#!/bin/sh
# Final confirmation pass, done the prescribed way: apply each seeded patch to /repo ITSELF, run the property's
# check, undo it straight afterwards.  Nothing else may use /repo while this runs.
cd /verif
test -z "$(git -C /repo status --porcelain)" || { echo "repo not clean"; exit 2; }
for d in seeded/*/; do
  n=$(basename $d); P=$(echo $n | cut -c1-3)
  [ -f $d/patch.diff ] || continue
  if ! git -C /repo apply $PWD/$d/patch.diff 2>/dev/null; then echo "$n: PATCH-DOES-NOT-APPLY"; continue; fi
  ./check $P > /tmp/confirm_$n.out 2>&1; RC=$?
  git -C /repo checkout -- .
  K=$(grep -E "^  \(" /tmp/confirm_$n.out | head -3 | sed 's/^  (\([^ ]*\) .*/\1/' | tr '\n' ' ')
  NF=$(grep -c "no-failing-input-found" /tmp/confirm_$n.out)
  echo "$n: exit=$RC keys=$K nofail=$NF"
  /venv/bin/python - "$d" "$RC" "$K" <<'PY'
import json, sys
d, rc, keys = sys.argv[1], int(sys.argv[2]), sys.argv[3].split()
f = d + "meta.json"
m = json.load(open(f))
m["confirmed_in_repo"] = {"command": "git -C /repo apply patch.diff; ./check %s; git -C /repo checkout -- ." % m["property"],
                          "exit": rc, "violation_keys": keys}
json.dump(m, open(f, "w"), indent=1)
PY
done
test -z "$(git -C /repo status --porcelain)" && echo "repo clean again"
