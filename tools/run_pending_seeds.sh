#!/bin/sh
# evaluate every delivered seed that has no confirmation record yet (one at a time)
exec 9>/tmp/run_pending_seeds.lock; flock -n 9 || { echo "already running"; exit 0; }
cd /verif
for d in /tmp/seed-C* /tmp/seed2-C* /tmp/seed3-C* /tmp/seed4-C* /tmp/seed5-C* /tmp/seed6-C[0-9][0-9] /tmp/seed7-C[0-9][0-9]; do
  [ -f $d/patch.diff ] && [ -f $d/meta.json ] || continue
  b=$(basename $d); P=${b#seed-}; TAG=""
  case $b in seed2-*) P=${b#seed2-}; TAG="-2";; seed3-*) P=${b#seed3-}; TAG="-3";; seed4-*) P=${b#seed4-}; TAG="-4";; seed5-*) P=${b#seed5-}; TAG="-5";; seed6-*) P=${b#seed6-}; TAG="-6";; seed7-*) P=${b#seed7-}; TAG="-7";; esac
  [ -f seeded/$P$TAG/meta.json ] && continue
  case " $SKIP " in *" $P "*) continue;; esac
  echo "##### $P$TAG"; tools/try_seed.sh $P $d $TAG
done
